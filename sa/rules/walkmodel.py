"""
Role discovery for the walk machinery (shared by C01-C04): every participant is
found by what it does in the resolved program, with its documented name only as
a fall-back.
"""
from __future__ import annotations

import ast
from typing import Any, Dict, List, Optional, Set, Tuple

from ..engine.cfg import CFG, Node
from ..engine.context import Ctx, bind_call_args
from ..engine.exprs import Defs, norm, strip_casts
from ..engine.patterns import cfg_node_of, stmt_of
from ..engine.universe import AnalysisError, ClassInfo, FuncInfo, ancestors, own_nodes


def defining_nodes(cfg: CFG, name: str) -> List[Node]:
    out = []
    for n in cfg.nodes:
        st = n.ast
        if isinstance(st, ast.Assign):
            for tgt in st.targets:
                if any(isinstance(x, ast.Name) and x.id == name and isinstance(x.ctx, ast.Store) for x in ast.walk(tgt)):
                    out.append(n)
        elif isinstance(st, (ast.AnnAssign, ast.AugAssign)):
            if any(isinstance(x, ast.Name) and x.id == name for x in ast.walk(st.target)):
                out.append(n)
        elif n.kind == "iter" and isinstance(st, (ast.For, ast.AsyncFor)):
            if any(isinstance(x, ast.Name) and x.id == name for x in ast.walk(st.target)):
                out.append(n)
    return out


def reaching_defs(cfg: CFG, name: str, at: Node) -> List[Node]:
    """Definition nodes of *name* that reach *at* (entry node stands for the parameter)."""
    dnodes = {n.id for n in defining_nodes(cfg, name)}
    seen: Set[int] = set()
    out: List[Node] = []
    stack = [p for p, _ in cfg.pred[at.id]]
    while stack:
        cur = stack.pop()
        if cur in seen:
            continue
        seen.add(cur)
        if cur in dnodes:
            out.append(cfg.nodes[cur])
            continue
        if cur == cfg.entry.id:
            out.append(cfg.entry)
            continue
        stack.extend(p for p, _ in cfg.pred[cur])
    return out


def assigned_value(node: Node) -> Optional[ast.AST]:
    st = node.ast
    if isinstance(st, ast.Assign):
        return st.value
    if isinstance(st, ast.AnnAssign):
        return st.value
    return None


class WalkModel:
    def __init__(self, ctx: Ctx) -> None:
        self.ctx = ctx
        self.client = ctx.client()
        self.walk = self._walk_function()
        self.fetch_param = self._fetcher_param()
        self.roots_param = self.walk.params[1]
        self.fetch_calls = self._fetch_calls()
        self.default_fetcher = self._default_fetcher()
        self.bulk_factory, self.bulk_fetcher = self._bulk_fetcher()
        self.dedup, self.dedup_calls = self._dedup()
        self.group, self.group_calls = self._callee_of_kind("group")
        self.unfinished, self.unfinished_calls = self._callee_of_kind("unfinished")
        self.eom = ctx.u.cls("puresnmp.pdu:EndOfMibView")
        self.faulty = ctx.u.cls("puresnmp.exc:FaultySNMPImplementation")

    # ------------------------------------------------------------------
    def _walk_function(self) -> FuncInfo:
        """The async generator of Client that takes a ``fetcher`` callable and awaits it."""
        cands = []
        for meth in self.client.methods.values():
            if not meth.is_async:
                continue
            if any(isinstance(n, ast.Yield) for n in own_nodes(meth.node)):
                meth = self.ctx.inlined(meth)  # the fetch may sit in a local helper coroutine
            has_yield = any(isinstance(n, ast.Yield) for n in own_nodes(meth.node))
            awaits_param = any(
                isinstance(n, ast.Await) and isinstance(n.value, ast.Call) and isinstance(n.value.func, ast.Name) and n.value.func.id in meth.params
                for n in own_nodes(meth.node)
            )
            if has_yield and awaits_param:
                cands.append(meth)
        if len(cands) != 1:
            raise AnalysisError(f"walk loop (async generator awaiting a fetcher parameter) not identified: {[c.qualname for c in cands]}")
        return cands[0]

    def _fetcher_param(self) -> str:
        for n in own_nodes(self.walk.node):
            if isinstance(n, ast.Await) and isinstance(n.value, ast.Call) and isinstance(n.value.func, ast.Name) and n.value.func.id in self.walk.params:
                return n.value.func.id
        raise AnalysisError("fetcher parameter not found")

    def _fetch_calls(self) -> List[ast.Call]:
        out = [
            n.value
            for n in own_nodes(self.walk.node)
            if isinstance(n, ast.Await) and isinstance(n.value, ast.Call) and isinstance(n.value.func, ast.Name) and n.value.func.id == self.fetch_param
        ]
        return sorted(out, key=lambda c: c.lineno)

    def _default_fetcher(self) -> FuncInfo:
        for n in own_nodes(self.walk.node):
            if isinstance(n, ast.Assign) and any(isinstance(t, ast.Name) and t.id == self.fetch_param for t in n.targets):
                val = n.value
                if isinstance(val, ast.Attribute) and isinstance(val.value, ast.Name) and val.value.id == "self":
                    meth = self.ctx.r.method(self.client, val.attr)
                    if meth is not None:
                        return meth
        raise AnalysisError("default fetcher (self.<method>) of the walk loop not found")

    def _bulk_fetcher(self) -> Tuple[FuncInfo, FuncInfo]:
        """(factory method, closure) handed to the walk loop as ``fetcher=`` by another Client method."""
        for meth in self.client.methods.values():
            for n in own_nodes(meth.node):
                if isinstance(n, ast.Call) and self.walk in [c for c in self.ctx.r.callees(meth, n) if isinstance(c, FuncInfo)]:
                    bound = bind_call_args(n, self.walk.params, defs=self.ctx.defs(meth))
                    arg = bound.get(self.fetch_param)
                    if isinstance(arg, ast.Call):
                        for callee in self.ctx.r.callees(meth, arg):
                            if isinstance(callee, FuncInfo):
                                rets = [r.value.id for r in own_nodes(callee.node) if isinstance(r, ast.Return) and isinstance(r.value, ast.Name)]
                                for name in rets:
                                    if name in callee.nested:
                                        return callee, callee.nested[name]
                                # return _Fetcher(self, size): an instance of a small class with __call__
                                from .common import bound_method_as_closure

                                for r in own_nodes(callee.node):
                                    if isinstance(r, ast.Return) and r.value is not None:
                                        view = bound_method_as_closure(self.ctx, callee, r.value)
                                        if view is not None:
                                            return callee, view
        raise AnalysisError("bulk fetcher factory / closure not found")

    def _dedup(self) -> Tuple[FuncInfo, List[ast.Call]]:
        calls = []
        target: Optional[FuncInfo] = None
        for n in own_nodes(self.walk.node):
            if isinstance(n, ast.For) and isinstance(n.iter, ast.Call):
                callees = [c for c in self.ctx.r.callees(self.walk, n.iter) if isinstance(c, FuncInfo)]
                if callees and any(isinstance(y, (ast.Yield, ast.YieldFrom)) for y in own_nodes(callees[0].node)):
                    target = callees[0]
                    calls.append(n.iter)
        if target is None:
            raise AnalysisError("the generator that filters what the walk yields was not found")
        return target, sorted(calls, key=lambda c: c.lineno)

    def _callee_of_kind(self, kind: str) -> Tuple[FuncInfo, List[ast.Call]]:
        """group: the function receiving the fetch result + the requested list; unfinished: the one receiving the grouping."""
        calls: List[ast.Call] = []
        target: Optional[FuncInfo] = None
        defs = self.ctx.defs(self.walk)
        fetch_results = set()
        for c in self.fetch_calls:
            st = stmt_of(c)
            if isinstance(st, ast.Assign) and isinstance(st.targets[0], ast.Name):
                fetch_results.add(st.targets[0].id)
        for _ in range(3):  # plain copies of a fetch result (a helper's return slot) are fetch results
            for n in own_nodes(self.walk.node):
                if isinstance(n, ast.Assign) and len(n.targets) == 1 and isinstance(n.targets[0], ast.Name) and isinstance(n.value, ast.Name) and n.value.id in fetch_results:
                    fetch_results.add(n.targets[0].id)
        group_results = set()
        for n in sorted((x for x in own_nodes(self.walk.node) if isinstance(x, ast.Assign)), key=lambda x: x.lineno):
            if isinstance(n.value, ast.Call) and n.value.args and isinstance(n.targets[0], ast.Name):
                first = n.value.args[0]
                callees = [c for c in self.ctx.r.callees(self.walk, n.value) if isinstance(c, FuncInfo)]
                if not callees:
                    continue
                if isinstance(first, ast.Name) and first.id in fetch_results:
                    group_results.add(n.targets[0].id)
                    if kind == "group":
                        target = callees[0]
                        calls.append(n.value)
                elif isinstance(first, ast.Name) and first.id in group_results and kind == "unfinished":
                    target = callees[0]
                    calls.append(n.value)
        if target is None:
            raise AnalysisError(f"walk loop: the {kind} step was not found")
        return target, calls

    # ------------------------------------------------------------------
    def fetchers(self) -> List[FuncInfo]:
        return [self.default_fetcher, self.bulk_fetcher]

    def truncation(self, fn: FuncInfo, depth: int = 0) -> List[Tuple[FuncInfo, ast.AST, str]]:
        """
        Places where *fn* (or a Client method it delegates to) leaves its output
        loop at an EndOfMibView marker: [(function, statement, 'break'|'continue'|...)].
        """
        out = []
        for n in own_nodes(fn.node):
            if isinstance(n, ast.If):
                test = n.test
                for sub in ast.walk(test):
                    if isinstance(sub, ast.Call) and isinstance(sub.func, ast.Name) and sub.func.id == "isinstance" and len(sub.args) == 2:
                        classes = sub.args[1].elts if isinstance(sub.args[1], ast.Tuple) else [sub.args[1]]
                        if any(self.ctx.r.resolve_class(fn.module, c) == self.eom for c in classes):
                            for st in n.body:
                                if isinstance(st, (ast.Break, ast.Continue, ast.Return)):
                                    out.append((fn, st, type(st).__name__.lower()))
        if depth < 2:
            for n in own_nodes(fn.node):
                if isinstance(n, ast.Call) and isinstance(n.func, ast.Attribute) and isinstance(n.func.value, ast.Name) and n.func.value.id == "self":
                    for callee in self.ctx.r.callees(fn, n):
                        if isinstance(callee, FuncInfo) and callee.cls == self.client and callee != fn and callee.name not in ("_send",):
                            out += self.truncation(callee, depth + 1)
        return out
