"""
Mutant corpus for checker validation.  kind=text: exact textual edit of a file
below src/ (must occur exactly ``count`` times, default 1); kind=patch: a diff
relative to the repository root (the reverse of a fix: commit).
expect=fire: the property check must report a VIOLATION; expect=silent: a
behaviour-preserving variant on which the check must stay at exit 0.
"""

MUTANTS = []


def text(mid, props, file, old, new, expect="fire", note="", count=1):
    MUTANTS.append({"id": mid, "props": props if isinstance(props, list) else [props], "kind": "text", "file": file, "old": old, "new": new, "expect": expect, "note": note, "count": count})


def multi(mid, props, edits, expect="fire", note=""):
    MUTANTS.append({"id": mid, "props": props if isinstance(props, list) else [props], "kind": "text", "edits": [{"file": f, "old": o, "new": n} for f, o, n in edits], "expect": expect, "note": note})


def patch(mid, props, name, expect="fire", note=""):
    MUTANTS.append({"id": mid, "props": props if isinstance(props, list) else [props], "kind": "patch", "patch": "reverts/" + name, "expect": expect, "note": note})


RAW = "puresnmp/api/raw.py"
UTIL = "puresnmp/util.py"
PDU = "puresnmp/pdu.py"
USM = "puresnmp_plugins/security/usm.py"
V3 = "puresnmp_plugins/mpm/v3.py"

# ---------------------------------------------------------------- reverts of the fix: commits
patch("rev-D1-multiset-id", "C07", "4406f9b-fix__multiset_validates_the_response_against_the_request_id_.diff")

# ---------------------------------------------------------------- C07
text("c07-drop-validate", "C07", RAW, "        validate_response_id(request_id, response.value.request_id)\n", "")
text("c07-validate-self", "C07", RAW, "validate_response_id(request_id, response.value.request_id)", "validate_response_id(request_id, request_id)")
text("c07-validator-lt", "C07", UTIL, "    if response_id != request_id:\n        raise InvalidResponseId(", "    if response_id < request_id:\n        raise InvalidResponseId(")
text("c07-validator-noraise", "C07", UTIL, "        raise InvalidResponseId(\n            f\"Invalid response ID {response_id} for request id {request_id}\"\n        )", "        InvalidResponseId(\n            f\"Invalid response ID {response_id} for request id {request_id}\"\n        )")
text("c07-multiget-second-clock", "C07", RAW, "        response = await self._send(pdu, request_id)\n        output = [value for _, value in response.value.varbinds]", "        response = await self._send(pdu, get_request_id())\n        output = [value for _, value in response.value.varbinds]")
text("c07-v2c-drop-community", "C07", "puresnmp_plugins/security/v2c.py", "        if community.pythonize() != credentials.community.encode(\"ascii\"):\n            raise SnmpError(\"Mismatching community in response mesasge!\")\n", "")
text("c07-v2c-version-const", "C07", "puresnmp_plugins/security/v2c.py", "if proto_version.pythonize() != 1:", "if proto_version.pythonize() not in (0, 1):")
text("c07-v1-drop-version", "C07", "puresnmp_plugins/security/v1.py", "        if proto_version.pythonize() != 0:\n", "        if False:\n")
text("c07-v1-community-eq", "C07", "puresnmp_plugins/security/v1.py", "if community.pythonize() != credentials.community.encode(\"ascii\"):", "if community.pythonize() == credentials.community.encode(\"ascii\"):")
text("c07-disco-drop-validate", "C07", USM, "        validate_response_id(request_id, response_id)\n", "")
text("c07-disco-two-ids", "C07", USM, "                GetRequest(PDUContent(request_id, [])),\n            ),\n        )\n        payload", "                GetRequest(PDUContent(get_request_id(), [])),\n            ),\n        )\n        payload")
text("c07-new-unvalidated-sender", "C07", RAW, "    async def get(self, oid: ObjectIdentifier) -> Type[Any]:", "    async def raw_exchange(self, data: bytes) -> PDU:\n        raw = await self.sender(self.endpoint, data, timeout=self.config.timeout, retries=self.config.retries)\n        return self.mpm.decode(raw, self.credentials)\n\n    async def get(self, oid: ObjectIdentifier) -> Type[Any]:")
# silent
text("c07-s-rename-local", "C07", RAW, "        request_id = get_request_id()\n        pdu = GetRequest(PDUContent(request_id, parsed_oids))\n        response = await self._send(pdu, request_id)", "        rid = get_request_id()\n        pdu = GetRequest(PDUContent(rid, parsed_oids))\n        response = await self._send(pdu, rid)", expect="silent")
text("c07-s-validator-eq-form", "C07", UTIL, "    if response_id != request_id:\n        raise InvalidResponseId(\n            f\"Invalid response ID {response_id} for request id {request_id}\"\n        )", "    if request_id == response_id:\n        return\n    raise InvalidResponseId(\n        f\"Invalid response ID {response_id} for request id {request_id}\"\n    )", expect="silent")
text("c07-s-send-extra-local", "C07", RAW, "        validate_response_id(request_id, response.value.request_id)\n        return response", "        got_id = response.value.request_id\n        LOG.debug(\"response id %s\", got_id)\n        validate_response_id(request_id, got_id)\n        return response", expect="silent")
