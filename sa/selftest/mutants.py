"""
Mutant corpus for checker validation.  kind=text: exact textual edit of a file
below src/ (must occur exactly ``count`` times, default 1); kind=patch: a diff
relative to the repository root (the reverse of a fix: commit).
expect=fire: the property check must report a VIOLATION; expect=silent: a
behaviour-preserving variant on which the check must stay at exit 0.
"""

MUTANTS = []


def text(mid, props, file, old, new, expect="fire", note="", count=1):
    MUTANTS.append({"id": mid, "props": props if isinstance(props, list) else [props], "kind": "text", "file": file, "old": old, "new": new, "expect": expect, "note": note, "count": count})


def multi(mid, props, edits, expect="fire", note=""):
    MUTANTS.append({"id": mid, "props": props if isinstance(props, list) else [props], "kind": "text", "edits": [{"file": f, "old": o, "new": n} for f, o, n in edits], "expect": expect, "note": note})


def patch(mid, props, name, expect="fire", note=""):
    MUTANTS.append({"id": mid, "props": props if isinstance(props, list) else [props], "kind": "patch", "patch": "reverts/" + name, "expect": expect, "note": note})


RAW = "puresnmp/api/raw.py"
UTIL = "puresnmp/util.py"
PDU = "puresnmp/pdu.py"
USM = "puresnmp_plugins/security/usm.py"
V3 = "puresnmp_plugins/mpm/v3.py"

# ---------------------------------------------------------------- reverts of the fix: commits
patch("rev-D1-multiset-id", "C07", "4406f9b-fix__multiset_validates_the_response_against_the_request_id_.diff")

# ---------------------------------------------------------------- C07
text("c07-drop-validate", "C07", RAW, "        validate_response_id(request_id, response.value.request_id)\n", "")
text("c07-validate-self", "C07", RAW, "validate_response_id(request_id, response.value.request_id)", "validate_response_id(request_id, request_id)")
text("c07-validator-lt", "C07", UTIL, "    if response_id != request_id:\n        raise InvalidResponseId(", "    if response_id < request_id:\n        raise InvalidResponseId(")
text("c07-validator-noraise", "C07", UTIL, "        raise InvalidResponseId(\n            f\"Invalid response ID {response_id} for request id {request_id}\"\n        )", "        InvalidResponseId(\n            f\"Invalid response ID {response_id} for request id {request_id}\"\n        )")
text("c07-multiget-second-clock", "C07", RAW, "        response = await self._send(pdu, request_id)\n        output = [value for _, value in response.value.varbinds]", "        response = await self._send(pdu, get_request_id())\n        output = [value for _, value in response.value.varbinds]")
text("c07-v2c-drop-community", "C07", "puresnmp_plugins/security/v2c.py", "        if community.pythonize() != credentials.community.encode(\"ascii\"):\n            raise SnmpError(\"Mismatching community in response mesasge!\")\n", "")
text("c07-v2c-version-const", "C07", "puresnmp_plugins/security/v2c.py", "if proto_version.pythonize() != 1:", "if proto_version.pythonize() not in (0, 1):")
text("c07-v1-drop-version", "C07", "puresnmp_plugins/security/v1.py", "        if proto_version.pythonize() != 0:\n", "        if False:\n")
text("c07-v1-community-eq", "C07", "puresnmp_plugins/security/v1.py", "if community.pythonize() != credentials.community.encode(\"ascii\"):", "if community.pythonize() == credentials.community.encode(\"ascii\"):")
text("c07-disco-drop-validate", "C07", USM, "        validate_response_id(request_id, response_id)\n", "")
text("c07-disco-two-ids", "C07", USM, "                GetRequest(PDUContent(request_id, [])),\n            ),\n        )\n        payload", "                GetRequest(PDUContent(get_request_id(), [])),\n            ),\n        )\n        payload")
text("c07-new-unvalidated-sender", "C07", RAW, "    async def get(self, oid: ObjectIdentifier) -> Type[Any]:", "    async def raw_exchange(self, data: bytes) -> PDU:\n        raw = await self.sender(self.endpoint, data, timeout=self.config.timeout, retries=self.config.retries)\n        return self.mpm.decode(raw, self.credentials)\n\n    async def get(self, oid: ObjectIdentifier) -> Type[Any]:")
# silent
text("c07-s-rename-local", "C07", RAW, "        request_id = get_request_id()\n        pdu = GetRequest(PDUContent(request_id, parsed_oids))\n        response = await self._send(pdu, request_id)", "        rid = get_request_id()\n        pdu = GetRequest(PDUContent(rid, parsed_oids))\n        response = await self._send(pdu, rid)", expect="silent")
text("c07-s-validator-eq-form", "C07", UTIL, "    if response_id != request_id:\n        raise InvalidResponseId(\n            f\"Invalid response ID {response_id} for request id {request_id}\"\n        )", "    if request_id == response_id:\n        return\n    raise InvalidResponseId(\n        f\"Invalid response ID {response_id} for request id {request_id}\"\n    )", expect="silent")
text("c07-s-send-extra-local", "C07", RAW, "        validate_response_id(request_id, response.value.request_id)\n        return response", "        got_id = response.value.request_id\n        LOG.debug(\"response id %s\", got_id)\n        validate_response_id(request_id, got_id)\n        return response", expect="silent")

# ---------------------------------------------------------------- C08
EXC = "puresnmp/exc.py"
patch("rev-D2-error-index", "C08", "b4bc2bd-fix__error-index_outside_the_binding_list_no_longer_hides_th.diff")
text("c08-status-positive-only", "C08", PDU, "        if error_status.value:\n", "        if error_status.value > 0:\n")
text("c08-return-instead-of-raise", "C08", PDU, "            raise exception\n", "            LOG.error(exception)\n")
text("c08-index-off-by-one", "C08", PDU, "            if 0 < error_index.value <= len(varbinds):\n                offending_oid = varbinds[error_index.value - 1].oid", "            if 0 <= error_index.value < len(varbinds):\n                offending_oid = varbinds[error_index.value].oid")
text("c08-upper-bound-dropped", "C08", PDU, "if 0 < error_index.value <= len(varbinds):", "if 0 < error_index.value:")
text("c08-lower-bound-dropped", "C08", PDU, "if 0 < error_index.value <= len(varbinds):", "if error_index.value <= len(varbinds):")
text("c08-construct-wrong-arg", "C08", PDU, "                error_status.value, offending_oid or ObjectIdentifier()", "                error_index.value, offending_oid or ObjectIdentifier()")
text("c08-identifier-swap", "C08", EXC, "    DEFAULT_MESSAGE = \"Bad value\"\n    IDENTIFIER = 3", "    DEFAULT_MESSAGE = \"Bad value\"\n    IDENTIFIER = 4")
text("c08-indirect-subclass", "C08", EXC, "class NotWritable(ErrorResponse):", "class NotWritable(ReadOnly):")
text("c08-fallback-drops-status", "C08", EXC, "        return ErrorResponse(offending_oid, message, error_status=error_status)", "        return ErrorResponse(offending_oid, message)")
text("c08-swallow-in-send", "C08", RAW, "        response = self.mpm.decode(raw_response, self.credentials)\n        validate_response_id(request_id, response.value.request_id)\n        return response", "        response = self.mpm.decode(raw_response, self.credentials)\n        try:\n            validate_response_id(request_id, response.value.request_id)\n        except SnmpError as exc:\n            LOG.warning(\"ignoring %s\", exc)\n        return response")
text("c08-s-guard-rewritten", "C08", PDU, "if 0 < error_index.value <= len(varbinds):", "if error_index.value >= 1 and error_index.value - 1 < len(varbinds):", expect="silent")
text("c08-s-raise-direct", "C08", PDU, "            exception = ErrorResponse.construct(\n                error_status.value, offending_oid or ObjectIdentifier()\n            )\n            raise exception", "            raise ErrorResponse.construct(\n                error_status.value, offending_oid or ObjectIdentifier()\n            )", expect="silent")
text("c08-s-status-ne-zero", "C08", PDU, "        if error_status.value:\n", "        if error_status.value != 0:\n", expect="silent")

# ---------------------------------------------------------------- C09
HASHBASE = "puresnmp_plugins/auth/hashbase.py"
patch("rev-D9-unauth-accepted", "C09", "809bbcd-fix__USM_refuses_unauthenticated_messages_for_users_that_req.diff")
text("c09-ignore-result", "C09", USM, "    if not is_authentic:\n        raise AuthenticationError(\n            \"Incoming message could not be authenticated!\"\n        )", "    if not is_authentic:\n        pass")
text("c09-is-none", "C09", USM, "    if not is_authentic:\n", "    if is_authentic is None:\n")
text("c09-verify-dropped", "C09", USM, "        verify_authentication(message, credentials, security_params)\n", "")
text("c09-verify-swallowed", "C09", USM, "        verify_authentication(message, credentials, security_params)\n", "        try:\n            verify_authentication(message, credentials, security_params)\n        except AuthenticationError:\n            pass\n")
text("c09-user-check-dropped", "C09", USM, "        if security_name != credentials.username.encode(\"ascii\"):\n", "        if False:\n")
text("c09-prefix-compare", "C09", HASHBASE, "        return received_digest == expected_digest\n", "        return expected_digest.startswith(received_digest)\n")
text("c09-placeholder-len", "C09", USM, "    neutral = replace(secparams, auth_params=b\"\\x00\" * 12)", "    neutral = replace(secparams, auth_params=b\"\\x00\" * 16)")
text("c09-raw-key-hmac", "C09", HASHBASE, "    auth_key = hasher(auth_key, engine_id)\n", "")
text("c09-truncate-8", "C09", HASHBASE, "    return mac.digest()[:12]", "    return mac.digest()[:8]")
text("c09-report-bypass", "C09", USM, "            validate_usm_message(cast(PlainMessage, message))\n        raise AuthenticationError(", "            validate_usm_message(cast(PlainMessage, message))\n            return\n        raise AuthenticationError(")
text("c09-mpm-returns-unverified", "C09", V3, "        return msg.scoped_pdu.data\n", "        return message.scoped_pdu.data\n")
text("c09-verify-only-if-priv", "C09", USM, "        verify_authentication(message, credentials, security_params)\n", "        if credentials.priv is not None:\n            verify_authentication(message, credentials, security_params)\n")
text("c09-s-compare-digest", "C09", HASHBASE, "        return received_digest == expected_digest\n", "        return hmac.compare_digest(received_digest, expected_digest)\n", expect="silent")
text("c09-s-direct-test", "C09", USM, "    is_authentic = auth_method.authenticate_incoming_message(\n        credentials.auth.key,\n        bytes(without_digest),\n        security_params.auth_params,\n        security_params.authoritative_engine_id,\n    )\n    if not is_authentic:", "    if not auth_method.authenticate_incoming_message(\n        credentials.auth.key,\n        bytes(without_digest),\n        security_params.auth_params,\n        security_params.authoritative_engine_id,\n    ):", expect="silent")
