"""
Mutant corpus for checker validation.  kind=text: exact textual edit of a file
below src/ (must occur exactly ``count`` times, default 1); kind=patch: a diff
relative to the repository root (the reverse of a fix: commit).
expect=fire: the property check must report a VIOLATION; expect=silent: a
behaviour-preserving variant on which the check must stay at exit 0.
"""

MUTANTS = []


def text(mid, props, file, old, new, expect="fire", note="", count=1):
    MUTANTS.append({"id": mid, "props": props if isinstance(props, list) else [props], "kind": "text", "file": file, "old": old, "new": new, "expect": expect, "note": note, "count": count})


def multi(mid, props, edits, expect="fire", note=""):
    MUTANTS.append({"id": mid, "props": props if isinstance(props, list) else [props], "kind": "text", "edits": [{"file": f, "old": o, "new": n} for f, o, n in edits], "expect": expect, "note": note})


def patch(mid, props, name, expect="fire", note=""):
    MUTANTS.append({"id": mid, "props": props if isinstance(props, list) else [props], "kind": "patch", "patch": "reverts/" + name, "expect": expect, "note": note})


RAW = "puresnmp/api/raw.py"
UTIL = "puresnmp/util.py"
PDU = "puresnmp/pdu.py"
USM = "puresnmp_plugins/security/usm.py"
V3 = "puresnmp_plugins/mpm/v3.py"

# ---------------------------------------------------------------- reverts of the fix: commits
patch("rev-D1-multiset-id", "C07", "4406f9b-fix__multiset_validates_the_response_against_the_request_id_.diff")
patch("rev-D19-lazy-trap-delivered", "C19", "8a9ecff-fix__trap_listener_only_delivers_decoded_notifications.diff")
patch("rev-D18-untyped-secparams", "C20", "9143978-fix__USM_security_parameters_wrong_ASN1_type_refused.diff")
patch("rev-D18b-subclass-secparams", "C20", "55a2240-fix__USM_security_parameters_exact_types_not_subclasses.diff")
patch("rev-D16-usmstats-as-data", "C12", "6a4d84c-fix__usmStats_counters_in_ordinary_responses_are_data.diff")
patch("rev-D14-unauth-report-status", "C09", "97c83a0-fix__unauthenticated_report_error_status_no_longer_ends_walk.diff")

# ---------------------------------------------------------------- C07
text("c07-drop-validate", "C07", RAW, "        validate_response_id(request_id, response.value.request_id)\n", "")
text("c07-validate-self", "C07", RAW, "validate_response_id(request_id, response.value.request_id)", "validate_response_id(request_id, request_id)")
text("c07-validator-lt", "C07", UTIL, "    if response_id != request_id:\n        raise InvalidResponseId(", "    if response_id < request_id:\n        raise InvalidResponseId(")
text("c07-validator-noraise", "C07", UTIL, "        raise InvalidResponseId(\n            f\"Invalid response ID {response_id} for request id {request_id}\"\n        )", "        InvalidResponseId(\n            f\"Invalid response ID {response_id} for request id {request_id}\"\n        )")
text("c07-multiget-second-clock", "C07", RAW, "        response = await self._send(pdu, request_id)\n        output = [value for _, value in response.value.varbinds]", "        response = await self._send(pdu, get_request_id())\n        output = [value for _, value in response.value.varbinds]")
text("c07-v2c-drop-community", "C07", "puresnmp_plugins/security/v2c.py", "        if community.pythonize() != credentials.community.encode(\"ascii\"):\n            raise SnmpError(\"Mismatching community in response mesasge!\")\n", "")
text("c07-v2c-version-const", "C07", "puresnmp_plugins/security/v2c.py", "if proto_version.pythonize() != 1:", "if proto_version.pythonize() not in (0, 1):")
text("c07-v1-drop-version", "C07", "puresnmp_plugins/security/v1.py", "        if proto_version.pythonize() != 0:\n", "        if False:\n")
text("c07-v1-community-eq", "C07", "puresnmp_plugins/security/v1.py", "if community.pythonize() != credentials.community.encode(\"ascii\"):", "if community.pythonize() == credentials.community.encode(\"ascii\"):")
text("c07-disco-drop-validate", "C07", USM, "        validate_response_id(request_id, response_id)\n", "")
text("c07-disco-two-ids", "C07", USM, "                GetRequest(PDUContent(request_id, [])),\n            ),\n        )\n        payload", "                GetRequest(PDUContent(get_request_id(), [])),\n            ),\n        )\n        payload")
text("c07-new-unvalidated-sender", "C07", RAW, "    async def get(self, oid: ObjectIdentifier) -> Type[Any]:", "    async def raw_exchange(self, data: bytes) -> PDU:\n        raw = await self.sender(self.endpoint, data, timeout=self.config.timeout, retries=self.config.retries)\n        return self.mpm.decode(raw, self.credentials)\n\n    async def get(self, oid: ObjectIdentifier) -> Type[Any]:")
# silent
text("c07-s-rename-local", "C07", RAW, "        request_id = get_request_id()\n        pdu = GetRequest(PDUContent(request_id, parsed_oids))\n        response = await self._send(pdu, request_id)", "        rid = get_request_id()\n        pdu = GetRequest(PDUContent(rid, parsed_oids))\n        response = await self._send(pdu, rid)", expect="silent")
text("c07-s-validator-eq-form", "C07", UTIL, "    if response_id != request_id:\n        raise InvalidResponseId(\n            f\"Invalid response ID {response_id} for request id {request_id}\"\n        )", "    if request_id == response_id:\n        return\n    raise InvalidResponseId(\n        f\"Invalid response ID {response_id} for request id {request_id}\"\n    )", expect="silent")
text("c07-s-send-extra-local", "C07", RAW, "        validate_response_id(request_id, response.value.request_id)\n        return response", "        got_id = response.value.request_id\n        LOG.debug(\"response id %s\", got_id)\n        validate_response_id(request_id, got_id)\n        return response", expect="silent")

# ---------------------------------------------------------------- C08
EXC = "puresnmp/exc.py"
patch("rev-D2-error-index", "C08", "b4bc2bd-fix__error-index_outside_the_binding_list_no_longer_hides_th.diff")
text("c08-status-positive-only", "C08", PDU, "        if error_status.value:\n", "        if error_status.value > 0:\n")
text("c08-return-instead-of-raise", "C08", PDU, "            raise exception\n", "            LOG.error(exception)\n")
text("c08-index-off-by-one", "C08", PDU, "            if 0 < error_index.value <= len(varbinds):\n                offending_oid = varbinds[error_index.value - 1].oid", "            if 0 <= error_index.value < len(varbinds):\n                offending_oid = varbinds[error_index.value].oid")
text("c08-upper-bound-dropped", "C08", PDU, "if 0 < error_index.value <= len(varbinds):", "if 0 < error_index.value:")
text("c08-lower-bound-dropped", "C08", PDU, "if 0 < error_index.value <= len(varbinds):", "if error_index.value <= len(varbinds):")
text("c08-construct-wrong-arg", "C08", PDU, "                error_status.value, offending_oid or ObjectIdentifier()", "                error_index.value, offending_oid or ObjectIdentifier()")
text("c08-identifier-swap", "C08", EXC, "    DEFAULT_MESSAGE = \"Bad value\"\n    IDENTIFIER = 3", "    DEFAULT_MESSAGE = \"Bad value\"\n    IDENTIFIER = 4")
text("c08-indirect-subclass", "C08", EXC, "class NotWritable(ErrorResponse):", "class NotWritable(ReadOnly):")
text("c08-fallback-drops-status", "C08", EXC, "        return ErrorResponse(offending_oid, message, error_status=error_status)", "        return ErrorResponse(offending_oid, message)")
text("c08-swallow-in-send", "C08", RAW, "        response = self.mpm.decode(raw_response, self.credentials)\n        validate_response_id(request_id, response.value.request_id)\n        return response", "        response = self.mpm.decode(raw_response, self.credentials)\n        try:\n            validate_response_id(request_id, response.value.request_id)\n        except SnmpError as exc:\n            LOG.warning(\"ignoring %s\", exc)\n        return response")
text("c08-s-guard-rewritten", "C08", PDU, "if 0 < error_index.value <= len(varbinds):", "if error_index.value >= 1 and error_index.value - 1 < len(varbinds):", expect="silent")
text("c08-s-raise-direct", "C08", PDU, "            exception = ErrorResponse.construct(\n                error_status.value, offending_oid or ObjectIdentifier()\n            )\n            raise exception", "            raise ErrorResponse.construct(\n                error_status.value, offending_oid or ObjectIdentifier()\n            )", expect="silent")
text("c08-s-status-ne-zero", "C08", PDU, "        if error_status.value:\n", "        if error_status.value != 0:\n", expect="silent")

# ---------------------------------------------------------------- C09
HASHBASE = "puresnmp_plugins/auth/hashbase.py"
patch("rev-D9-unauth-accepted", "C09", "809bbcd-fix__USM_refuses_unauthenticated_messages_for_users_that_req.diff")
text("c09-ignore-result", "C09", USM, "    if not is_authentic:\n        raise AuthenticationError(\n            \"Incoming message could not be authenticated!\"\n        )", "    if not is_authentic:\n        pass")
text("c09-is-none", "C09", USM, "    if not is_authentic:\n", "    if is_authentic is None:\n")
text("c09-verify-dropped", "C09", USM, "        verify_authentication(message, credentials, security_params)\n", "")
text("c09-verify-swallowed", "C09", USM, "        verify_authentication(message, credentials, security_params)\n", "        try:\n            verify_authentication(message, credentials, security_params)\n        except AuthenticationError:\n            pass\n")
text("c09-user-check-dropped", "C09", USM, "        if security_name != credentials.username.encode(\"ascii\"):\n", "        if False:\n")
text("c09-prefix-compare", "C09", HASHBASE, "        return received_digest == expected_digest\n", "        return expected_digest.startswith(received_digest)\n")
text("c09-placeholder-len", "C09", USM, "    neutral = replace(secparams, auth_params=b\"\\x00\" * 12)", "    neutral = replace(secparams, auth_params=b\"\\x00\" * 16)")
text("c09-raw-key-hmac", "C09", HASHBASE, "    auth_key = hasher(auth_key, engine_id)\n", "")
text("c09-truncate-8", "C09", HASHBASE, "    return mac.digest()[:12]", "    return mac.digest()[:8]")
text("c09-report-bypass", "C09", USM, "                ) from exc\n        raise AuthenticationError(", "                ) from exc\n            return\n        raise AuthenticationError(")
text("c09-mpm-returns-unverified", "C09", V3, "        return msg.scoped_pdu.data\n", "        return message.scoped_pdu.data\n")
text("c09-verify-only-if-priv", "C09", USM, "        verify_authentication(message, credentials, security_params)\n", "        if credentials.priv is not None:\n            verify_authentication(message, credentials, security_params)\n")
text("c09-s-compare-digest", "C09", HASHBASE, "        return received_digest == expected_digest\n", "        return hmac.compare_digest(received_digest, expected_digest)\n", expect="silent")
text("c09-s-direct-test", "C09", USM, "    is_authentic = auth_method.authenticate_incoming_message(\n        credentials.auth.key,\n        bytes(without_digest),\n        security_params.auth_params,\n        security_params.authoritative_engine_id,\n    )\n    if not is_authentic:", "    if not auth_method.authenticate_incoming_message(\n        credentials.auth.key,\n        bytes(without_digest),\n        security_params.auth_params,\n        security_params.authoritative_engine_id,\n    ):", expect="silent")

# ---------------------------------------------------------------- C13
TPT = "puresnmp/transport.py"
patch("rev-D12-socket-leak", "C13", "0faccb0-fix__UDP_socket_is_released_when_the_OS_reports_an_error_for.diff")
text("c13-no-close-on-reply", "C13", TPT, "        self.future.set_result(data)\n        if self.transport:\n            self.transport.close()\n", "        self.future.set_result(data)\n")
text("c13-no-abort-on-timeout", "C13", TPT, "        except (asyncio.TimeoutError, socket.timeout) as exc:\n            if self.transport:\n                self.transport.abort()\n", "        except (asyncio.TimeoutError, socket.timeout) as exc:\n")
text("c13-no-decrement", "C13", TPT, "            retries -= 1\n", "")
text("c13-eq-zero", "C13", TPT, "            if retries == 1:\n                raise", "            if retries == 0:\n                raise")
text("c13-s-ge-zero-loop", "C13", TPT, "    while retries > 0:", "    while retries >= 0:", expect="silent", note="equivalent for retries >= 1: the handler raises when the counter is 1")
text("c13-timeout-doubled", "C13", TPT, "response = await protocol.get_data(timeout)", "response = await protocol.get_data(timeout * 2)")
text("c13-packet-altered", "C13", TPT, "            lambda: SNMPClientProtocol(packet),", "            lambda: SNMPClientProtocol(packet[:1400]),")
text("c13-reply-stripped", "C13", TPT, "        self.future.set_result(data)\n", "        self.future.set_result(data.rstrip(b\"\\x00\"))\n")
text("c13-wait-for-const", "C13", TPT, "return await asyncio.wait_for(self.future, timeout)", "return await asyncio.wait_for(self.future, 1)")
text("c13-swallow-timeout-last", "C13", TPT, "            if retries == 1:\n                raise\n", "            if retries == 1:\n                return b\"\"\n")
text("c13-wrong-exception", "C13", TPT, "            raise Timeout(\n                f\"{timeout} second timeout exceeded on UDP transport.\"\n            ) from exc", "            raise OSError(\n                f\"{timeout} second timeout exceeded on UDP transport.\"\n            ) from exc")
text("c13-s-finally", "C13", TPT, "        except Exception:\n            # Errors reported by the OS (f.ex. ICMP port unreachable) end up\n            # here. Don't leave the socket open\n            if self.transport:\n                self.transport.abort()\n            raise\n", "        except BaseException:\n            if self.transport is not None:\n                self.transport.abort()\n            raise\n", expect="silent")
text("c13-s-close-in-error-received", "C13", TPT, "        self.future.set_exception(exc)\n\n    async def get_data", "        self.future.set_exception(exc)\n        if self.transport:\n            self.transport.close()\n\n    async def get_data", expect="silent")

# ---------------------------------------------------------------- C18
text("c18-mpm-not-restored", "C18", RAW, "            self.config = old_config\n            self.mpm = old_mpm\n", "            self.config = old_config\n")
text("c18-no-finally", "C18", RAW, "        try:\n            self.configure(**kwargs)\n            yield\n        finally:\n            self.config = old_config\n            self.mpm = old_mpm\n", "        self.configure(**kwargs)\n        yield\n        self.config = old_config\n        self.mpm = old_mpm\n")
text("c18-restore-swapped", "C18", RAW, "            self.config = old_config\n            self.mpm = old_mpm\n", "            self.config = self.config\n            self.mpm = old_mpm\n")
text("c18-save-after-configure", "C18", RAW, "        old_config = self.config\n        old_mpm = self.mpm\n        try:\n            self.configure(**kwargs)\n", "        self.configure(**kwargs)\n        old_config = self.config\n        old_mpm = self.mpm\n        try:\n")
text("c18-store-before-validate", "C18", RAW, "        new_config = replace(self.config, **kwargs)\n        if \"credentials\" in kwargs and type(self.config.credentials) != type(\n            kwargs[\"credentials\"]\n        ):\n            # New credentials may switch from one SNMP version to another\n            # so we need to create a new message-processing-model\n            lcd: Dict[str, Any] = {}\n            self.mpm = mpm.create(\n                kwargs[\"credentials\"].mpm, self.transport_handler, lcd\n            )\n        self.config = new_config\n", "        if \"credentials\" in kwargs and type(self.config.credentials) != type(\n            kwargs[\"credentials\"]\n        ):\n            lcd: Dict[str, Any] = {}\n            self.mpm = mpm.create(\n                kwargs[\"credentials\"].mpm, self.transport_handler, lcd\n            )\n        new_config = replace(self.config, **kwargs)\n        self.config = new_config\n")
text("c18-timeout-captured", "C18", RAW, "        self.sender = sender\n        self.transport_handler = handler\n", "        self.sender = sender\n        self._timeout = self.config.timeout\n        self.transport_handler = handler\n", expect="silent", note="adds an unused attribute only")
text("c18-send-const-timeout", "C18", RAW, "            bytes(packet),\n            timeout=self.config.timeout,\n            retries=self.config.retries,\n        )\n        response = self.mpm.decode", "            bytes(packet),\n            timeout=DEFAULT_TIMEOUT,\n            retries=self.config.retries,\n        )\n        response = self.mpm.decode")
multi("c18-handler-captured-retries", "C18", [(RAW, "        endpoint = Endpoint(address, port)\n\n        async def handler", "        endpoint = Endpoint(address, port)\n        retries = self.config.retries\n\n        async def handler"), (RAW, "                timeout=self.config.timeout,\n                retries=self.config.retries,\n            )\n\n        self.sender = sender", "                timeout=self.config.timeout,\n                retries=retries,\n            )\n\n        self.sender = sender")])
text("c18-old-creds-mpm", "C18", RAW, "            self.mpm = mpm.create(\n                kwargs[\"credentials\"].mpm, self.transport_handler, lcd\n            )", "            self.mpm = mpm.create(\n                self.config.credentials.mpm, self.transport_handler, lcd\n            )")
text("c18-no-family-switch", "C18", RAW, "        if \"credentials\" in kwargs and type(self.config.credentials) != type(\n            kwargs[\"credentials\"]\n        ):", "        if \"credentials\" in kwargs and type(self.config.credentials) == type(\n            kwargs[\"credentials\"]\n        ):")
text("c18-v2c-mpm-id", "C18", "puresnmp/credentials.py", "        super().__init__(community)\n        self.mpm = 1", "        super().__init__(community)\n        self.mpm = 2")
text("c18-decode-stale-creds", "C18", RAW, "        response = self.mpm.decode(raw_response, self.credentials)", "        response = self.mpm.decode(raw_response, pdu_credentials)")
text("c18-s-rename-saved", "C18", RAW, "        old_config = self.config\n        old_mpm = self.mpm\n        try:\n            self.configure(**kwargs)\n            yield\n        finally:\n            self.config = old_config\n            self.mpm = old_mpm\n", "        previous_mpm = self.mpm\n        previous = self.config\n        try:\n            self.configure(**kwargs)\n            yield\n        finally:\n            self.mpm = previous_mpm\n            self.config = previous\n", expect="silent")

# ---------------------------------------------------------------- C15
PY = "puresnmp/api/pythonic.py"
patch("rev-D3-bulkget-keys", "C15", "eab59f1-fix__PyWrapper.bulkget_returns_str_OIDs_as_dictionary_keys.diff")
text("c15-get-raw", "C15", PY, "        return raw_value.pythonize()\n", "        return raw_value\n")
text("c15-multiget-raw", "C15", PY, "        pythonized = [value.pythonize() for value in raw_output]\n", "        pythonized = [value for value in raw_output]\n")
text("c15-multiset-oid-keys", "C15", PY, "            str(oid): value.pythonize() for oid, value in raw_output.items()", "            oid: value.pythonize() for oid, value in raw_output.items()")
text("c15-walk-raw-yield", "C15", PY, "        async for varbind in raw_result:\n            yield PyVarBind.from_raw(varbind)", "        async for varbind in raw_result:\n            yield varbind")
text("c15-table-raw-cells", "C15", PY, "        output = []\n        for row in tmp:\n            index = row.pop(\"0\")\n            pythonized = {key: value.pythonize() for key, value in row.items()}", "        output = []\n        for row in tmp:\n            index = row.pop(\"0\")\n            pythonized = {key: value for key, value in row.items()}")
text("c15-bulktable-returns-raw", "C15", PY, "            output.append(pythonized)  # type: ignore\n        return output", "            output.append(pythonized)  # type: ignore\n        return tmp")
text("c15-from-raw-value-raw", "C15", "puresnmp/varbind.py", "            raw_varbind.oid.pythonize(), raw_varbind.value.pythonize()", "            raw_varbind.oid.pythonize(), raw_varbind.value")
text("c15-multiget-filter", "C15", PY, "        pythonized = [value.pythonize() for value in raw_output]\n", "        pythonized = [value.pythonize() for value in raw_output if value.pythonize() is not None]\n")
text("c15-bulkwalk-skip", "C15", PY, "        async for varbind in result:\n            yield PyVarBind.from_raw(varbind)", "        async for varbind in result:\n            if varbind.value.pythonize() is None:\n                continue\n            yield PyVarBind.from_raw(varbind)")
text("c15-timeticks-float", "C15", "puresnmp/types.py", "    def pythonize(self) -> Optional[timedelta]:  # type: ignore", "    def pythonize(self) -> \"TimeTicks\":  # type: ignore")
text("c15-s-loop-instead-of-comp", "C15", PY, "        pythonized = [value.pythonize() for value in raw_output]\n        return pythonized", "        pythonized = []\n        for value in raw_output:\n            pythonized.append(value.pythonize())\n        return pythonized", expect="silent")

# ---------------------------------------------------------------- C17
TYPES = "puresnmp/types.py"
patch("rev-D4-timeticks-trunc", "C17", "1e76b1d-fix__TimeTicks_from_timedelta_no_longer_loses_a_tick.diff")
text("c17-counter-mask", "C17", TYPES, "            value &= 0xFFFFFFFF if value >= 2**32 else value\n", "            value &= 0x7FFFFFFF if value >= 2**32 else value\n")
text("c17-counter-threshold", "C17", TYPES, "            value &= 0xFFFFFFFF if value >= 2**32 else value\n", "            value &= 0xFFFFFFFF if value > 2**32 else value\n")
text("c17-counter64-threshold", "C17", TYPES, "value &= 0xFFFFFFFFFFFFFFFF if value >= 2**64 else value", "value &= 0xFFFFFFFFFFFFFFFF if value >= 2**63 else value", expect="silent", note="equivalent: masking values below 2**64 with 64 one bits is the identity")
text("c17-counter64-mask32", "C17", TYPES, "value &= 0xFFFFFFFFFFFFFFFF if value >= 2**64 else value", "value &= 0xFFFFFFFF if value >= 2**64 else value")
text("c17-no-clamp", "C17", TYPES, "            value &= 0xFFFFFFFF if value >= 2**32 else value\n            if value <= 0:\n                value = 0\n", "            value &= 0xFFFFFFFF if value >= 2**32 else value\n")
text("c17-clamp-abs", "C17", TYPES, "            value &= 0xFFFFFFFF if value >= 2**32 else value\n            if value <= 0:\n                value = 0\n", "            value &= 0xFFFFFFFF\n", note="negative values wrap instead of clamping")
text("c17-gauge-signed", "C17", TYPES, "class Gauge(Integer):\n    \"\"\"\n    SNMP type for gauges.\n    \"\"\"\n\n    SIGNED = False\n", "class Gauge(Integer):\n    \"\"\"\n    SNMP type for gauges.\n    \"\"\"\n\n")
text("c17-ticks-scale-1000", "C17", TYPES, "            value = value // timedelta(milliseconds=10)\n", "            value = value // timedelta(milliseconds=1)\n")
text("c17-pythonize-scale", "C17", TYPES, "        seconds = self.value / 100.0  # see rfc2578#section-7.1.8", "        seconds = self.value / 10.0  # see rfc2578#section-7.1.8")
text("c17-pythonize-floordiv", "C17", TYPES, "        seconds = self.value / 100.0  # see rfc2578#section-7.1.8", "        seconds = self.value // 100  # see rfc2578#section-7.1.8")
text("c17-ip-little", "C17", TYPES, "        return numeric.to_bytes(4, \"big\")", "        return numeric.to_bytes(4, \"little\")")
text("c17-s-round", "C17", TYPES, "            value = value // timedelta(milliseconds=10)\n", "            value = round(value.total_seconds() * 100)\n", expect="silent")
text("c17-s-modulo", "C17", TYPES, "            value &= 0xFFFFFFFF if value >= 2**32 else value\n            if value <= 0:\n                value = 0\n", "            if value < 0:\n                value = 0\n            value = value % 2**32\n", expect="silent")

# ---------------------------------------------------------------- C16
text("c16-table-plus-one", "C16", RAW, "            tmp, num_base_nodes=len(oid), _rowtype=_rowtype\n", "            tmp, num_base_nodes=len(oid) + 1, _rowtype=_rowtype\n")
text("c16-bulktable-no-plus", "C16", RAW, "tablify(tmp, num_base_nodes=len(oid) + 1, _rowtype=_rowtype)", "tablify(tmp, num_base_nodes=len(oid), _rowtype=_rowtype)")
text("c16-row-drops-first-arc", "C16", UTIL, "            col_id_nodes, row_id_nodes = tail[0], tail[1:]", "            col_id_nodes, row_id_nodes = tail[0], tail[2:]")
text("c16-row-last-arc-only", "C16", UTIL, "            row_id = \".\".join([str(node) for node in row_id_nodes])", "            row_id = str(row_id_nodes[-1])")
text("c16-col-wrong-arc", "C16", UTIL, "            tail = oid.nodes[num_base_nodes:]", "            tail = oid.nodes[num_base_nodes - 1 :]")
text("c16-fresh-row-per-cell", "C16", UTIL, "        row = rows.setdefault(row_id, tmp)\n", "        rows[row_id] = tmp\n        row = tmp\n")
text("c16-index-key", "C16", UTIL, "            \"0\": row_id,\n", "            \"index\": row_id,\n")
text("c16-bulktable-fixed-bulk", "C16", RAW, "        varbinds = self.bulkwalk([oid], bulk_size=bulk_size)", "        varbinds = self.bulkwalk([oid], bulk_size=10)")
text("c16-table-skip-first", "C16", RAW, "        async for varbind in varbinds:\n            tmp.append(varbind)\n        as_table: List[TTableRow] = tablify(", "        async for varbind in varbinds:\n            if varbind.oid == oid:\n                continue\n            tmp.append(varbind)\n        as_table: List[TTableRow] = tablify(")
text("c16-wrapper-index-lost", "C16", PY, "            pythonized[\"0\"] = index\n            output.append(pythonized)\n        return output", "            output.append(pythonized)\n        return output")
text("c16-s-generator-join", "C16", UTIL, "            row_id = \".\".join([str(node) for node in row_id_nodes])", "            row_id = \".\".join(str(node) for node in row_id_nodes)", expect="silent")
text("c16-s-direct-slices", "C16", UTIL, "            tail = oid.nodes[num_base_nodes:]\n            col_id_nodes, row_id_nodes = tail[0], tail[1:]", "            col_id_nodes = oid.nodes[num_base_nodes]\n            row_id_nodes = oid.nodes[num_base_nodes + 1 :]", expect="silent")

# ---------------------------------------------------------------- C19
patch("rev-D13-trap-decode", "C19", "1aa18a8-fix__trap_listener_decodes_notifications_and_records_their_o.diff")
text("c19-source-dropped", "C19", RAW, "        trap.source = packet.info\n", "")
text("c19-source-conditional", "C19", RAW, "        trap.source = packet.info\n", "        if packet.info.port == 162:\n            trap.source = packet.info\n")
text("c19-callback-twice", "C19", RAW, "        asyncio.ensure_future(callback(trap))\n", "        asyncio.ensure_future(callback(trap))\n        asyncio.ensure_future(callback(trap))\n")
text("c19-callback-before-decode", "C19", RAW, "        trap = cast(Trap, mproc.decode(packet.data, credentials))\n", "        asyncio.ensure_future(callback(as_sequence))\n        trap = cast(Trap, mproc.decode(packet.data, credentials))\n")
text("c19-mpm-by-const", "C19", RAW, "        mproc = mpm.create(version.value, handler, lcd)\n", "        mproc = mpm.create(1, handler, lcd)\n", note="v1 traps would be refused / v3 not decoded; selector must be the version field")
text("c19-default-creds", "C19", RAW, "        trap = cast(Trap, mproc.decode(packet.data, credentials))\n", "        trap = cast(Trap, mproc.decode(packet.data, V2C(\"public\")))\n")
text("c19-receiver-closes", "C19", "puresnmp/transport.py", "        self.callback(SocketResponse(data, SocketInfo(addr[0], addr[1])))\n", "        self.callback(SocketResponse(data, SocketInfo(addr[0], addr[1])))\n        if self.transport:\n            self.transport.close()\n")
text("c19-receiver-debug-only", "C19", "puresnmp/transport.py", "            LOG.debug(\"Received packet:\\n%s\", hexdump)\n        self.callback(SocketResponse(data, SocketInfo(addr[0], addr[1])))", "            LOG.debug(\"Received packet:\\n%s\", hexdump)\n            self.callback(SocketResponse(data, SocketInfo(addr[0], addr[1])))")
text("c19-receiver-port-addr-swapped", "C19", "puresnmp/transport.py", "SocketResponse(data, SocketInfo(addr[0], addr[1]))", "SocketResponse(data, SocketInfo(addr[1], addr[0]))")
text("c19-v2c-mpm-skips-sm", "C19", "puresnmp_plugins/mpm/v2c.py", "        msg = self.security_model.process_incoming_message(decoded, credentials)\n        return msg", "        return decoded[2]")
text("c19-trapinfo-oid-index", "C19", PY, "        return self.raw_trap.value.varbinds[1].value.pythonize()  # type: ignore", "        return self.raw_trap.value.varbinds[0].value.pythonize()  # type: ignore")
text("c19-trapinfo-values-slice", "C19", PY, "        for varbind in self.raw_trap.value.varbinds[2:]:", "        for varbind in self.raw_trap.value.varbinds[3:]:")
text("c19-s-unpack-form", "C19", RAW, "        as_sequence = Sequence.decode(packet.data)\n        version = cast(Integer, as_sequence[0])\n\n        mproc = mpm.create(version.value, handler, lcd)", "        as_sequence = Sequence.decode(packet.data)\n        version, _, _ = as_sequence\n\n        mproc = mpm.create(version.pythonize(), handler, lcd)", expect="silent")

# ---------------------------------------------------------------- C01
patch("rev-D8-unsorted-roots", "C01", "578e45a-fix__multiwalk_requests_its_root_OIDs_in_ascending_order.diff")
text("c01-no-containment", "C01", RAW, "            if not any(containment) or varbind.oid in yielded:", "            if varbind.oid in yielded:")
text("c01-no-dedup", "C01", RAW, "            if not any(containment) or varbind.oid in yielded:", "            if not any(containment):")
text("c01-reversed-in", "C01", RAW, "            containment = [varbind.oid in _ for _ in requested_oids]", "            containment = [_ in varbind.oid for _ in requested_oids]")
text("c01-all-instead-of-any", "C01", RAW, "            if not any(containment) or varbind.oid in yielded:", "            if not all(containment) or varbind.oid in yielded:")
text("c01-no-seen-add", "C01", RAW, "            yielded.add(varbind.oid)\n            yield varbind", "            yield varbind")
text("c01-seen-per-round", "C01", RAW, "            for varbind in deduped_varbinds(oids, grouped_oids, yielded):\n                yield varbind\n", "            for varbind in deduped_varbinds(oids, grouped_oids, set()):\n                yield varbind\n")
text("c01-filter-by-continuation", "C01", RAW, "            for varbind in deduped_varbinds(oids, grouped_oids, yielded):\n                yield varbind\n", "            for varbind in deduped_varbinds(next_fetches, grouped_oids, yielded):\n                yield varbind\n")
text("c01-stride-plus-one", "C01", UTIL, "        results[effective_roots[i]] = varbinds[i::n]", "        results[effective_roots[i]] = varbinds[i :: n + 1]")
text("c01-offset-shift", "C01", UTIL, "        results[effective_roots[i]] = varbinds[i::n]", "        results[effective_roots[i]] = varbinds[i + 1 :: n]")
text("c01-key-shift", "C01", UTIL, "        results[effective_roots[i]] = varbinds[i::n]", "        results[effective_roots[i - 1]] = varbinds[i::n]")
text("c01-first-instead-of-last", "C01", UTIL, "        k: WalkRow(v[-1], v[-1].oid in k) for k, v in grouped_oids.items() if v", "        k: WalkRow(v[0], v[0].oid in k) for k, v in grouped_oids.items() if v")
text("c01-unfinished-reversed", "C01", UTIL, "        k: WalkRow(v[-1], v[-1].oid in k) for k, v in grouped_oids.items() if v", "        k: WalkRow(v[-1], k in v[-1].oid) for k, v in grouped_oids.items() if v")
text("c01-stale-loop-var", "C01", RAW, "            unfinished_oids = get_unfinished_walk_oids(grouped_oids)\n            if LOG.isEnabledFor", "            remaining = get_unfinished_walk_oids(grouped_oids)\n            if LOG.isEnabledFor")
text("c01-batch-dropped", "C01", RAW, "        yielded: Set[ObjectIdentifier] = set()\n        for varbind in deduped_varbinds(oids, grouped_oids, yielded):\n            yield varbind\n", "        yielded: Set[ObjectIdentifier] = set()\n")
text("c01-marker-not-cut", "C01", RAW, "        for oid, value in response_object.value.varbinds:\n            if isinstance(value, EndOfMibView):\n                break\n            output.append(VarBind(oid, value))", "        for oid, value in response_object.value.varbinds:\n            output.append(VarBind(oid, value))")
text("c01-remap-reversed", "C01", UTIL, "            containment = [base for base in user_roots if key in base]", "            containment = [base for base in user_roots if base in key]")
text("c01-continue-all-roots", "C01", UTIL, "        if item[1].unfinished\n", "        if item[1].unfinished or True\n")
text("c01-unsorted-continuation", "C01", UTIL, "        for item in sorted(last_received_oids.items())\n", "        for item in last_received_oids.items()\n")
text("c01-regroup-by-roots", "C01", RAW, "            grouped_oids = group_varbinds(\n                varbinds, next_fetches, user_roots=oids\n            )", "            grouped_oids = group_varbinds(\n                varbinds, oids, user_roots=oids\n            )")
text("c01-reverse-within-root", "C01", RAW, "        for varbind in var:\n            containment", "        for varbind in reversed(var):\n            containment")
text("c01-s-rename-and-genexp", "C01", RAW, "            containment = [varbind.oid in _ for _ in requested_oids]\n            if not any(containment) or varbind.oid in yielded:", "            inside = any(varbind.oid in root for root in requested_oids)\n            if not inside or varbind.oid in yielded:", expect="silent")
text("c01-s-split-guards", "C01", RAW, "            if not any(containment) or varbind.oid in yielded:\n                LOG.debug(\n                    \"Unexpected device response: Returned VarBind %s \"\n                    \"was either not contained in the requested tree or \"\n                    \"appeared more than once. Skipping!\",\n                    varbind,\n                )\n                continue\n", "            if not any(containment):\n                continue\n            if varbind.oid in yielded:\n                continue\n", expect="silent")

# ---------------------------------------------------------------- C03
patch("rev-D6-bulk-progress", "C03", "bad0b18-fix__bulk_walks_end_when_the_agent_does_not_return_increasin.diff")
text("c03-le", "C03", RAW, "            if not requested < retrieved.oid:\n                raise FaultySNMPImplementation(\n                    \"The OID %s is not a successor of %s!\"\n                    % (retrieved.oid, requested)\n                )\n        return output", "            if not requested <= retrieved.oid:\n                raise FaultySNMPImplementation(\n                    \"The OID %s is not a successor of %s!\"\n                    % (retrieved.oid, requested)\n                )\n        return output")
text("c03-swapped-operands", "C03", RAW, "            if not requested < retrieved.oid:\n                raise FaultySNMPImplementation(\n                    \"The OID %s is not a successor of %s!\"\n                    % (retrieved.oid, requested)\n                )\n        return output", "            if not retrieved.oid < requested:\n                raise FaultySNMPImplementation(\n                    \"The OID %s is not a successor of %s!\"\n                    % (retrieved.oid, requested)\n                )\n        return output")
text("c03-no-raise-getnext", "C03", RAW, "        for requested, retrieved in zip(oids, output):\n            if not requested < retrieved.oid:\n                raise FaultySNMPImplementation(", "        for requested, retrieved in zip(oids, output):\n            if not requested < retrieved.oid:\n                LOG.warning(")
text("c03-zip-shifted", "C03", RAW, "        for requested, retrieved in zip(oids, output):", "        for requested, retrieved in zip(oids[1:], output):")
text("c03-bulk-first-row-only", "C03", RAW, "                if i < num_oids:\n                    requested = oids[i]\n                else:\n                    requested = listing[i - num_oids].oid\n", "                requested = oids[i % num_oids]\n")
text("c03-bulk-wrong-column", "C03", RAW, "                    requested = listing[i - num_oids].oid\n", "                    requested = listing[i - 1].oid\n")
text("c03-lenient-continue", "C03", RAW, "                        next_fetches,\n                        exc,\n                    )\n                    break\n                raise", "                        next_fetches,\n                        exc,\n                    )\n                    continue\n                raise")
text("c03-strict-swallowed", "C03", RAW, "                        next_fetches,\n                        exc,\n                    )\n                    break\n                raise", "                        next_fetches,\n                        exc,\n                    )\n                break")
text("c03-first-fetch-uncovered", "C03", RAW, "        try:\n            varbinds = await fetcher(oids)\n        except FaultySNMPImplementation as exc:\n            if errors == ERRORS_WARN:\n                LOG.warning(\n                    \"SNMP walk aborted prematurely due to faulty SNMP \"\n                    \"implementation on device %r! Upon running a \"\n                    \"GetNext on OIDs %r it returned the following \"\n                    \"error: %s\",\n                    self.endpoint,\n                    oids,\n                    exc,\n                )\n                return\n            raise\n", "        varbinds = await fetcher(oids)\n")
text("c03-guard-after-return", "C03", RAW, "            _, listing = await self._bulkget_varbinds(\n                [], oids, max_list_size=bulk_size\n            )\n", "            _, listing = await self._bulkget_varbinds(\n                [], oids, max_list_size=bulk_size\n            )\n            if bulk_size == 1:\n                return listing\n")
text("c03-s-gt-form", "C03", RAW, "            if not requested < retrieved.oid:\n                raise FaultySNMPImplementation(\n                    \"The OID %s is not a successor of %s!\"\n                    % (retrieved.oid, requested)\n                )\n        return output", "            if not retrieved.oid > requested:\n                raise FaultySNMPImplementation(\n                    \"The OID %s is not a successor of %s!\"\n                    % (retrieved.oid, requested)\n                )\n        return output", expect="silent")
text("c03-s-ifexp", "C03", RAW, "                if i < num_oids:\n                    requested = oids[i]\n                else:\n                    requested = listing[i - num_oids].oid\n", "                requested = oids[i] if i < len(oids) else listing[i - len(oids)].oid\n", expect="silent")

# ---------------------------------------------------------------- C02
text("rev-D7-bulk-dict", "C02", RAW, "            _, listing = await self._bulkget_varbinds(\n                [], oids, max_list_size=bulk_size\n            )", "            result = await self.bulkget([], oids, max_list_size=bulk_size)\n            listing = [VarBind((k), v) for k, v in result.listing.items()]", note="D7 re-introduced on the current tree: the fetcher rebuilds its list from the OID-keyed mapping")
text("c02-bound-sum", "C02", RAW, "        expected_max_varbinds = n + (m * r)", "        expected_max_varbinds = n + m + r")
text("c02-bound-ge", "C02", RAW, "        if n_retrieved_varbinds > expected_max_varbinds:", "        if n_retrieved_varbinds >= expected_max_varbinds:")
text("c02-bound-no-check", "C02", RAW, "        if n_retrieved_varbinds > expected_max_varbinds:", "        if False and n_retrieved_varbinds > expected_max_varbinds:")
text("c02-split-off-by-one", "C02", RAW, "        repeating_tmp = get_response.value.varbinds[len(scalar_oids) :]", "        repeating_tmp = get_response.value.varbinds[len(scalar_oids) + 1 :]")
text("c02-swapped-counters", "C02", RAW, "        pdu = BulkGetRequest(request_id, non_repeaters, max_list_size, *oids)", "        pdu = BulkGetRequest(request_id, max_list_size, non_repeaters, *oids)")
text("c02-repeaters-first", "C02", RAW, "        oids = list(scalar_oids) + list(repeating_oids)", "        oids = list(repeating_oids) + list(scalar_oids)")
text("c02-continue-at-marker", "C02", RAW, "        for oid, value in repeating_tmp:\n            if isinstance(value, EndOfMibView):\n                break\n", "        for oid, value in repeating_tmp:\n            if isinstance(value, EndOfMibView):\n                continue\n")
text("c02-fetcher-fixed-bulk", "C02", RAW, "            _, listing = await self._bulkget_varbinds(\n                [], oids, max_list_size=bulk_size\n            )", "            _, listing = await self._bulkget_varbinds(\n                [], oids, max_list_size=10\n            )")
text("c02-fetcher-dedup-set", "C02", RAW, "            return listing\n\n        fetcher.__name__", "            return sorted(set(listing))\n\n        fetcher.__name__")
text("c02-bulkwalk-sorted-roots-dropped", "C02", RAW, "        result = self.multiwalk(\n            oids,\n            fetcher=self._bulkwalk_fetcher(bulk_size),\n        )", "        result = self.multiwalk(\n            oids[:1],\n            fetcher=self._bulkwalk_fetcher(bulk_size),\n        )")
text("c02-bulkwalk-skips", "C02", RAW, "        async for oid, value in result:\n            yield VarBind(oid, value)", "        async for oid, value in result:\n            if value.value is None:\n                continue\n            yield VarBind(oid, value)")
text("c02-s-bound-inline", "C02", RAW, "        n = min(non_repeaters, len(oids))\n        m = max_list_size\n        r = max(len(oids) - n, 0)  # pylint: disable=invalid-name\n        expected_max_varbinds = n + (m * r)", "        expected_max_varbinds = len(scalar_oids) + max_list_size * len(repeating_oids)", expect="silent", note="equivalent because scalars are a prefix of the request")

# ---------------------------------------------------------------- C04
patch("rev-D8b-getnext-index", "C04", "881c6ae-fix__getnext_at_the_end_of_the_MIB_view_raises_NoSuchOID_ins.diff")
text("c04-multiget-count-lt", "C04", RAW, "        if len(output) != len(oids):\n            raise SnmpError(\n                \"Unexpected response. Expected %d varbind, \"", "        if len(output) < len(oids):\n            raise SnmpError(\n                \"Unexpected response. Expected %d varbind, \"")
text("c04-multigetnext-no-count", "C04", RAW, "        if len(response_object.value.varbinds) != len(oids):\n            raise SnmpError(", "        if False:\n            raise SnmpError(")
text("c04-multiset-count-gt", "C04", RAW, "        if len(output) != len(mappings):", "        if len(output) > len(mappings):")
text("c04-multiget-getnext-class", "C04", RAW, "        pdu = GetRequest(PDUContent(request_id, parsed_oids))", "        pdu = GetNextRequest(PDUContent(request_id, parsed_oids))")
text("c04-multiget-sorted-request", "C04", RAW, "        parsed_oids = [VarBind(oid, Null()) for oid in oids]\n", "        parsed_oids = [VarBind(oid, Null()) for oid in sorted(oids)]\n")
text("c04-multiget-dedup-request", "C04", RAW, "        parsed_oids = [VarBind(oid, Null()) for oid in oids]\n", "        parsed_oids = [VarBind(oid, Null()) for oid in oids if oid]\n")
text("c04-multiget-sorted-result", "C04", RAW, "        output = [value for _, value in response.value.varbinds]\n", "        output = [value for _, value in sorted(response.value.varbinds)]\n")
text("c04-multiget-returns-oids", "C04", RAW, "        output = [value for _, value in response.value.varbinds]\n", "        output = [oid for oid, _ in response.value.varbinds]\n")
text("c04-get-only-nosuchobject", "C04", RAW, "        result = await self.multiget([oid])\n        if isinstance(result[0], (NoSuchObject, NoSuchInstance)):", "        result = await self.multiget([oid])\n        if isinstance(result[0], NoSuchObject):")
text("c04-get-returns-marker", "C04", RAW, "        result = await self.multiget([oid])\n        if isinstance(result[0], (NoSuchObject, NoSuchInstance)):\n            raise NoSuchOID(oid)\n        return result[0]", "        result = await self.multiget([oid])\n        return result[0]")
text("c04-set-untyped-allowed", "C04", RAW, "        if any(not isinstance(v, Type) for v in mappings.values()):\n            raise TypeError(", "        if False:\n            raise TypeError(")
text("c04-set-null-values", "C04", RAW, "        binds = [VarBind(oid, value) for oid, value in mappings.items()]", "        binds = [VarBind(oid, Null()) for oid, value in mappings.items()]")
text("c04-getnext-wrong-oid", "C04", RAW, "        result = await self.multigetnext([oid])", "        result = await self.multigetnext([oid, oid])")
text("c04-s-getnext-guard-stmt", "C04", RAW, "        if not result or isinstance(\n            result[0].value, (NoSuchObject, NoSuchInstance)\n        ):\n            raise NoSuchOID(oid)\n        return result[0]", "        if not result:\n            raise NoSuchOID(oid)\n        if isinstance(result[0].value, (NoSuchObject, NoSuchInstance)):\n            raise NoSuchOID(oid)\n        return result[0]", expect="silent")

# ---------------------------------------------------------------- C05
ADT = "puresnmp/adt.py"
text("c05-pdu-swap-status-index", "C05", PDU, "            Integer(self.value.error_status),\n            Integer(self.value.error_index),\n            Sequence(wrapped_varbinds),  # type: ignore\n        ]\n        payload = b\"\".join([bytes(chunk) for chunk in data])\n        return payload", "            Integer(self.value.error_index),\n            Integer(self.value.error_status),\n            Sequence(wrapped_varbinds),  # type: ignore\n        ]\n        payload = b\"\".join([bytes(chunk) for chunk in data])\n        return payload")
text("c05-varbind-swapped", "C05", PDU, "            Sequence([vb.oid, vb.value]) for vb in self.value.varbinds", "            Sequence([vb.value, vb.oid]) for vb in self.value.varbinds")
text("c05-varbinds-reversed", "C05", PDU, "            Sequence([vb.oid, vb.value]) for vb in self.value.varbinds", "            Sequence([vb.oid, vb.value]) for vb in reversed(self.value.varbinds)")
text("c05-default-index-1", "C05", PDU, "    error_status: int = 0\n    error_index: int = 0", "    error_status: int = 0\n    error_index: int = 1")
text("c05-inform-tag", "C05", PDU, "class InformRequest(PDU):\n    \"\"\"\n    Represents an SNMP Inform request\n    \"\"\"\n\n    TAG = 6", "class InformRequest(PDU):\n    \"\"\"\n    Represents an SNMP Inform request\n    \"\"\"\n\n    TAG = 5")
text("c05-bulk-swap", "C05", PDU, "            Integer(self.non_repeaters),\n            Integer(self.max_repeaters),", "            Integer(self.max_repeaters),\n            Integer(self.non_repeaters),")
text("c05-bulk-init-swap", "C05", PDU, "        self.non_repeaters = non_repeaters\n        self.max_repeaters = max_repeaters", "        self.non_repeaters = max_repeaters\n        self.max_repeaters = non_repeaters")
text("c05-bulk-universal-class", "C05", PDU, "        tinfo = TypeInfo(TypeClass.CONTEXT, TypeNature.CONSTRUCTED, self.TAG)", "        tinfo = TypeInfo(TypeClass.APPLICATION, TypeNature.CONSTRUCTED, self.TAG)")
text("c05-bulk-length-of-data", "C05", PDU, "        length = encode_length(len(payload))\n        return bytes(tinfo) + length + payload", "        length = encode_length(len(data))\n        return bytes(tinfo) + length + payload")
text("c05-v2c-version", "C05", "puresnmp_plugins/security/v2c.py", "            [Integer(1), OctetString(credentials.community), message]", "            [Integer(2), OctetString(credentials.community), message]")
text("c05-header-order", "C05", ADT, "                Integer(self.message_id),\n                Integer(self.message_max_size),", "                Integer(self.message_max_size),\n                Integer(self.message_id),")
text("c05-flags-bits", "C05", ADT, "        value |= int(self.reportable) << 2\n        value |= int(self.priv) << 1", "        value |= int(self.reportable) << 1\n        value |= int(self.priv) << 2")
text("c05-scoped-order", "C05", ADT, "                self.context_engine_id,\n                self.context_name,\n                self.data,\n            ]", "                self.context_name,\n                self.context_engine_id,\n                self.data,\n            ]")
text("c05-usm-boots-time", "C05", USM, "                Integer(self.authoritative_engine_boots),\n                Integer(self.authoritative_engine_time),", "                Integer(self.authoritative_engine_time),\n                Integer(self.authoritative_engine_boots),")
text("c05-message-secparams-raw", "C05", ADT, "                    OctetString(self.security_parameters),\n                    spdu,", "                    spdu,\n                    OctetString(self.security_parameters),")
text("c05-v3-model", "C05", V3, "        security_model_id = 3\n        if self.security_model is None:\n            self.security_model = create_sm(security_model_id)\n\n        # We need", "        security_model_id = 2\n        if self.security_model is None:\n            self.security_model = create_sm(3)\n\n        # We need")
text("c05-v3-context-swapped", "C05", V3, "            OctetString(engine_id), OctetString(context_name), pdu", "            OctetString(context_name), OctetString(engine_id), pdu")
text("c05-v3-msgid-const", "C05", V3, "        header = HeaderData(\n            request_id,", "        header = HeaderData(\n            0,")
text("c05-s-pdu-list-inline", "C05", PDU, "        data: List[Type[Any]] = [\n            Integer(self.value.request_id),\n            Integer(self.value.error_status),\n            Integer(self.value.error_index),\n            Sequence(wrapped_varbinds),  # type: ignore\n        ]\n        payload = b\"\".join([bytes(chunk) for chunk in data])\n        return payload", "        fields: List[Type[Any]] = [\n            Integer(self.value.request_id),\n            Integer(self.value.error_status),\n            Integer(self.value.error_index),\n            Sequence(wrapped_varbinds),  # type: ignore\n        ]\n        return b\"\".join([bytes(chunk) for chunk in fields])", expect="silent")

# ---------------------------------------------------------------- C06
text("c06-counter64-tag", "C06", TYPES, "    SIGNED = False\n    TYPECLASS = TypeClass.APPLICATION\n    TAG = 0x06", "    SIGNED = False\n    TYPECLASS = TypeClass.APPLICATION\n    TAG = 0x07")
text("c06-gauge-signed", "C06", TYPES, "class Gauge(Integer):\n    \"\"\"\n    SNMP type for gauges.\n    \"\"\"\n\n    SIGNED = False\n", "class Gauge(Integer):\n    \"\"\"\n    SNMP type for gauges.\n    \"\"\"\n\n")
text("c06-opaque-class", "C06", TYPES, "class Opaque(OctetString):\n    \"\"\"\n    The Opaque type is to be considered to carry \"any\" binary data.\n\n    It is up to the application to know how to interpret this data and is\n    passed through transparently by the SNMP protocol.\n    \"\"\"\n\n    TYPECLASS = TypeClass.APPLICATION", "class Opaque(OctetString):\n    \"\"\"\n    The Opaque type is to be considered to carry \"any\" binary data.\n\n    It is up to the application to know how to interpret this data and is\n    passed through transparently by the SNMP protocol.\n    \"\"\"\n\n    TYPECLASS = TypeClass.CONTEXT")
text("c06-endofmib-tag", "C06", PDU, "    TYPECLASS = TypeClass.CONTEXT\n    NATURE = [TypeNature.PRIMITIVE]\n    TAG = 2", "    TYPECLASS = TypeClass.CONTEXT\n    NATURE = [TypeNature.PRIMITIVE]\n    TAG = 1")
text("c06-types-import-conditional", "C06", "puresnmp/__init__.py", "import puresnmp.types\n", "try:\n    import puresnmp.types\nexcept ImportError:\n    pass\n")
text("c06-decode-swap-status-index", "C06", PDU, "        return PDUContent(\n            request_id.value, varbinds, error_status.value, error_index.value\n        )", "        return PDUContent(\n            request_id.value, varbinds, error_index.value, error_status.value\n        )")
text("c06-decode-read-order", "C06", PDU, "        error_status, nxt = decode(data, nxt, enforce_type=Integer)\n        error_index, nxt = decode(data, nxt, enforce_type=Integer)", "        error_index, nxt = decode(data, nxt, enforce_type=Integer)\n        error_status, nxt = decode(data, nxt, enforce_type=Integer)", note="the second wire INTEGER (error-status) is bound to error_index and vice versa")
text("c06-varbind-swapped-decode", "C06", PDU, "            varbinds.append(VarBind(oid, value))\n\n        return PDUContent(", "            varbinds.append(VarBind(value, oid))\n\n        return PDUContent(")
text("c06-header-index", "C06", ADT, "        msg_id = cast(Integer, header[0])\n        msg_max_size = cast(Integer, header[1])", "        msg_id = cast(Integer, header[1])\n        msg_max_size = cast(Integer, header[0])")
text("c06-secparams-index", "C06", ADT, "        security_parameters = cast(OctetString, seq[2]).value", "        security_parameters = cast(OctetString, seq[3]).value")
text("c06-flags-mask", "C06", ADT, "        reportable = bool(flags & 0b100)\n        priv = bool(flags & 0b010)\n        auth = bool(flags & 0b001)", "        reportable = bool(flags & 0b100)\n        priv = bool(flags & 0b001)\n        auth = bool(flags & 0b010)")
text("c06-flags-positional-swap", "C06", ADT, "        return V3Flags(auth, priv, reportable)", "        return V3Flags(priv, auth, reportable)")
text("c06-usm-boots-time-decode", "C06", USM, "            authoritative_engine_boots=seq[1].pythonize(),\n            authoritative_engine_time=seq[2].pythonize(),", "            authoritative_engine_boots=seq[2].pythonize(),\n            authoritative_engine_time=seq[1].pythonize(),")
text("c06-scoped-decode-index", "C06", ADT, "        engine_id = cast(OctetString, sequence[0])\n        cname = cast(OctetString, sequence[1])", "        engine_id = cast(OctetString, sequence[1])\n        cname = cast(OctetString, sequence[0])")
text("c06-message-class-selection", "C06", ADT, "            EncryptedMessage\n            if isinstance(message[3], OctetString)\n            else PlainMessage", "            EncryptedMessage\n            if isinstance(message[2], OctetString)\n            else PlainMessage")

# ---------------------------------------------------------------- C10
patch("rev-D5-reportable", "C10", "33df443-fix__SNMPv3_SET_and_GETBULK_requests_are_marked_reportable.diff")
text("c10-reportable-response", "C10", V3, "        pdu, (GetRequest, BulkGetRequest, SetRequest, InformRequest)\n", "        pdu, PDU\n")
text("c10-auth-flag-priv", "C10", V3, "            auth=credentials.auth is not None,\n            priv=credentials.priv is not None,", "            auth=credentials.auth is not None,\n            priv=credentials.auth is not None,")
text("c10-boots-time-swapped", "C10", USM, "        encrypted_message = apply_encryption(\n            message,\n            credentials,\n            security_name,\n            security_engine_id,\n            engine_boots,\n            engine_time,\n        )", "        encrypted_message = apply_encryption(\n            message,\n            credentials,\n            security_name,\n            security_engine_id,\n            engine_time,\n            engine_boots,\n        )")
text("c10-auth-before-encrypt", "C10", USM, "        encrypted_message = apply_encryption(\n            message,\n            credentials,\n            security_name,\n            security_engine_id,\n            engine_boots,\n            engine_time,\n        )\n\n        authed_message = apply_authentication(\n            encrypted_message, credentials, security_engine_id\n        )\n\n        return authed_message", "        authed_message = apply_authentication(\n            message, credentials, security_engine_id\n        )\n        encrypted_message = apply_encryption(\n            authed_message,\n            credentials,\n            security_name,\n            security_engine_id,\n            engine_boots,\n            engine_time,\n        )\n\n        return encrypted_message")
text("c10-digest-over-unreset", "C10", USM, "        auth_result = auth_method.authenticate_outgoing_message(\n            credentials.auth.key,\n            bytes(without_digest),", "        auth_result = auth_method.authenticate_outgoing_message(\n            credentials.auth.key,\n            bytes(unauthed_message),")
text("c10-wrong-engine-for-timing", "C10", V3, "            self.security_model.set_engine_timing(\n                self.disco.authoritative_engine_id,", "            self.security_model.set_engine_timing(\n                engine_id,")
text("c10-md5-keylen", "C10", "puresnmp_plugins/auth/md5.py", "hasher = password_to_key(hashlib.md5, 16)", "hasher = password_to_key(hashlib.md5, 20)")
text("c10-sha1-hmac-md5", "C10", "puresnmp_plugins/auth/sha1.py", "authenticate_outgoing_message = hashbase.for_outgoing(hasher, \"sha1\")", "authenticate_outgoing_message = hashbase.for_outgoing(hasher, \"md5\")")
text("c10-expansion-no-plus-one", "C10", UTIL, "        tmp = (password * (num_words + 1))[:hash_size]", "        tmp = (password * num_words)[:hash_size]")
text("c10-expansion-size", "C10", UTIL, "        hash_size = 1024 * 1024\n", "        hash_size = 1000 * 1000\n")
text("c10-localise-once", "C10", UTIL, "            key[:padding_length] + engine_id + key[:padding_length]", "            key[:padding_length] + engine_id")
text("c10-user-from-engine", "C10", USM, "        security_name = credentials.username.encode(\"ascii\")\n        engine_config", "        security_name = security_engine_id\n        engine_config")
text("c10-authentic-refused", "C10", USM, "    if not is_authentic:\n        raise AuthenticationError(\n            \"Incoming message could not be authenticated!\"\n        )", "    raise AuthenticationError(\n        \"Incoming message could not be authenticated!\"\n    )")
text("c10-s-ceil-idiom", "C10", UTIL, "        num_words = hash_size // len(password)\n        tmp = (password * (num_words + 1))[:hash_size]", "        num_words = -(-hash_size // len(password))\n        tmp = (password * num_words)[:hash_size]", expect="silent")

# ---------------------------------------------------------------- C11
text("c11-plaintext-with-priv", "C11", USM, "        scoped_pdu = OctetString(encrypted)\n", "        scoped_pdu = OctetString(bytes(message.scoped_pdu))\n")
text("c11-raw-password-key", "C11", USM, "    localised_key = localise_key(credentials, security_engine_id)\n    try:\n        encrypted, salt", "    localised_key = credentials.priv.key\n    try:\n        encrypted, salt")
text("c11-auth-password-for-priv", "C11", UTIL, "    output = hasher(credentials.priv.key, engine_id)", "    output = hasher(credentials.auth.key, engine_id)")
text("c11-swapped-boots-time", "C11", USM, "            localised_key,\n            security_engine_id,\n            engine_boots,\n            engine_time,\n            bytes(message.scoped_pdu),", "            localised_key,\n            security_engine_id,\n            engine_time,\n            engine_boots,\n            bytes(message.scoped_pdu),")
text("c11-fallback-plaintext", "C11", USM, "    except Exception as exc:\n        raise EncryptionError(f\"Unable to encrypt message ({exc})\") from exc\n", "    except Exception as exc:\n        LOG_FALLBACK = exc\n        return message\n")
text("c11-salt-dropped", "C11", USM, "                security_name,\n                b\"\",\n                salt,\n            )", "                security_name,\n                b\"\",\n                b\"\",\n            )")
text("c11-decrypt-local-time", "C11", USM, "            security_parameters.authoritative_engine_boots,\n            security_parameters.authoritative_engine_time,\n            security_parameters.priv_params,", "            security_parameters.authoritative_engine_boots,\n            0,\n            security_parameters.priv_params,")
text("c11-decrypt-raw-key", "C11", USM, "        decrypted = priv_method.decrypt_data(\n            localised_key,", "        decrypted = priv_method.decrypt_data(\n            key,")
text("c11-sha1-uses-md5", "C11", UTIL, "            cast(Callable[[bytes], TDigestable], hashlib.sha1), 20", "            cast(Callable[[bytes], TDigestable], hashlib.md5), 16")
text("c11-encrypt-only-if-auth", "C11", USM, "    if credentials.priv is None:\n        return replace(", "    if credentials.priv is None or credentials.auth is None:\n        return replace(")
text("c11-s-rename", "C11", USM, "        encrypted, salt = priv_method.encrypt_data(", "        encrypted, salt = priv_method.encrypt_data(  # noqa", expect="silent")

# ---------------------------------------------------------------- C12
patch("rev-D11-engine-time", "C12", "b807211-fix__SNMPv3_engine_time_sent_in_requests_advances_with_the_l.diff")
text("c12-read-before-discovery", "C12", V3, "        if not self.disco:\n            self.disco = await self.security_model.send_discovery_message(\n                self.transport_handler\n            )\n            self.disco_received_at = monotonic()\n        security_engine_id = self.disco.authoritative_engine_id\n", "        security_engine_id = self.disco.authoritative_engine_id if self.disco else b\"\"\n        if not self.disco:\n            self.disco = await self.security_model.send_discovery_message(\n                self.transport_handler\n            )\n            self.disco_received_at = monotonic()\n")
text("c12-context-engine-not-defaulted", "C12", V3, "        if engine_id == b\"\":\n            engine_id = security_engine_id\n", "        if engine_id is None:\n            engine_id = security_engine_id\n")
text("c12-elapsed-dropped", "C12", V3, "                self.disco.authoritative_engine_time + elapsed,", "                self.disco.authoritative_engine_time,")
text("c12-stamp-at-construction", "C12", V3, "            self.disco_received_at = monotonic()\n        security_engine_id", "        if self.disco_received_at is None:\n            self.disco_received_at = 0.0\n        security_engine_id")
text("c12-report-table-hole", "C12", USM, "        ObjectIdentifier(\"1.3.6.1.6.3.15.1.1.2.0\"): \"Not in time window\",\n", "")
text("c12-report-no-raise", "C12", USM, "            msg = errors[varbind.oid]\n            raise SnmpError(f\"Error response from remote device: {msg}\")", "            msg = errors[varbind.oid]\n            LOG_MSG = msg")
text("c12-disco-id-unchecked", "C12", USM, "        validate_response_id(request_id, response_id)\n", "")
text("c12-validate-skipped-for-plain", "C12", USM, "        message = decrypt_message(message, credentials)\n        validate_usm_message(message)\n        return message", "        message = decrypt_message(message, credentials)\n        if credentials.priv is not None:\n            validate_usm_message(message)\n        return message")

# ---------------------------------------------------------------- C14
text("c14-request-id-on-self", "C14", RAW, "    async def _send(self, pdu: PDU, request_id: int) -> PDU:\n        packet, _ = await self.mpm.encode(\n            request_id,", "    async def _send(self, pdu: PDU, request_id: int) -> PDU:\n        self.request_id = request_id\n        packet, _ = await self.mpm.encode(\n            self.request_id,")
text("c14-last-response-cache", "C14", RAW, "        response = self.mpm.decode(raw_response, self.credentials)\n        validate_response_id", "        response = self.mpm.decode(raw_response, self.credentials)\n        self.last_response = response\n        validate_response_id")
text("c14-module-level-pending", "C14", RAW, "    async def _send(self, pdu: PDU, request_id: int) -> PDU:\n", "    async def _send(self, pdu: PDU, request_id: int) -> PDU:\n        PENDING[request_id] = pdu\n")
text("c14-mpm-stores-pdu", "C14", V3, "        scoped_pdu = ScopedPDU(\n            OctetString(engine_id), OctetString(context_name), pdu\n        )", "        self.current_pdu = pdu\n        scoped_pdu = ScopedPDU(\n            OctetString(engine_id), OctetString(context_name), self.current_pdu\n        )")
text("c14-usm-stores-credentials", "C14", USM, "        security_name = credentials.username.encode(\"ascii\")\n        engine_config", "        self.credentials = credentials\n        security_name = self.credentials.username.encode(\"ascii\")\n        engine_config")
text("c14-shared-yielded-set", "C14", RAW, "        yielded: Set[ObjectIdentifier] = set()\n", "        yielded = self._yielded\n")
text("c14-await-between-timing", "C14", V3, "        snmp_version = 3\n        msg = PlainMessage", "        await asyncio_sleep0()\n        snmp_version = 3\n        msg = PlainMessage")
text("c14-lazy-init-await", "C14", V3, "        security_model_id = 3\n        if self.security_model is None:\n            self.security_model = create_sm(security_model_id)\n\n        # We need", "        security_model_id = 3\n        if self.security_model is None:\n            await asyncio_sleep0()\n            self.security_model = create_sm(security_model_id)\n\n        # We need")
text("c14-class-level-future", "C14", "puresnmp/transport.py", "    def __init__(self, packet: bytes) -> None:\n        loop = asyncio.get_running_loop()\n        self.packet = packet", "    replies = []\n\n    def __init__(self, packet: bytes) -> None:\n        loop = asyncio.get_running_loop()\n        self.packet = packet")
text("c14-s-local-counter", "C14", RAW, "        output = []\n        for oid, value in response_object.value.varbinds:", "        output = []\n        seen_markers = []\n        for oid, value in response_object.value.varbinds:", expect="silent")

# ---------------------------------------------------------------- C20
text("c20-x690-definite-no-advance", "C20", "x690/util.py", "        end = index + 1 + offset + length\n        nex_index = end", "        end = index + 1 + offset + length\n        nex_index = end - offset - 1 - length")
text("c20-x690-decode-returns-start", "C20", "x690/types.py", "    return output, next_tlv  # type: ignore", "    return output, start_index  # type: ignore")
text("c20-x690-signed-length", "C20", "x690/util.py", "        value_octets = data[index + 1 : index + num_octets + 1]\n        output = int.from_bytes(value_octets, \"big\")", "        value_octets = data[index + 1 : index + num_octets + 1]\n        output = int.from_bytes(value_octets, \"big\", signed=True)")
text("c20-spin-on-marker", "C20", PDU, "        varbinds = []\n        for oid, value in values:  # type: ignore", "        varbinds = []\n        pending = len(values)\n        while pending:\n            pending = len(values)\n        for oid, value in values:  # type: ignore")
text("c20-range-error-index", "C20", PDU, "            offending_oid = None\n", "            offending_oid = None\n            padding = [None for _ in range(error_index.value)]\n")
text("c20-alloc-from-max-size", "C20", ADT, "        msg_id = cast(Integer, header[0])\n", "        msg_id = cast(Integer, header[0])\n        scratch = bytearray(header[1].value)\n")
text("c20-decode-remembers-message", "C20", V3, "        message = Message.decode(whole_msg)\n", "        message = Message.decode(whole_msg)\n        self.last_message = message\n")
text("c20-s-for-loop", "C20", PDU, "        varbinds = []\n        for oid, value in values:  # type: ignore", "        varbinds = []\n        count = 0\n        for oid, value in values:  # type: ignore", expect="silent")

# ---------------------------------------------------------------- robustness (behaviour-preserving, must stay silent)
text("s-c13-for-range", "C13", "puresnmp/transport.py", "    while retries > 0:\n        _, protocol = await loop.create_datagram_endpoint(\n            lambda: SNMPClientProtocol(packet),\n            remote_addr=(str(endpoint.ip), endpoint.port),\n        )\n        try:\n            response = await protocol.get_data(timeout)\n            break\n        except Timeout:\n            if retries == 1:\n                raise\n            retries -= 1\n            LOG.debug(\"Resending UDP packet. %d retries left\", retries)\n", "    for attempt in range(retries):\n        _, protocol = await loop.create_datagram_endpoint(\n            lambda: SNMPClientProtocol(packet),\n            remote_addr=(str(endpoint.ip), endpoint.port),\n        )\n        try:\n            response = await protocol.get_data(timeout)\n            break\n        except Timeout:\n            if attempt == retries - 1:\n                raise\n            LOG.debug(\"Resending UDP packet. %d retries left\", retries - attempt - 1)\n", expect="silent")
multi("s-c10-rename-encryption-params", ["C10", "C11"], [(USM, "    security_name: bytes,\n    security_engine_id: bytes,\n    engine_boots: int,\n    engine_time: int,\n) -> Union[PlainMessage, EncryptedMessage]:", "    user: bytes,\n    target_engine: bytes,\n    boots: int,\n    ticks: int,\n) -> Union[PlainMessage, EncryptedMessage]:"), (USM, "                USMSecurityParameters(\n                    security_engine_id,\n                    engine_boots,\n                    engine_time,\n                    security_name,\n                    b\"\",\n                    b\"\",\n                )", "                USMSecurityParameters(\n                    target_engine,\n                    boots,\n                    ticks,\n                    user,\n                    b\"\",\n                    b\"\",\n                )"), (USM, "    localised_key = localise_key(credentials, security_engine_id)\n    try:\n        encrypted, salt = priv_method.encrypt_data(\n            localised_key,\n            security_engine_id,\n            engine_boots,\n            engine_time,", "    localised_key = localise_key(credentials, target_engine)\n    try:\n        encrypted, salt = priv_method.encrypt_data(\n            localised_key,\n            target_engine,\n            boots,\n            ticks,"), (USM, "            USMSecurityParameters(\n                security_engine_id,\n                engine_boots,\n                engine_time,\n                security_name,\n                b\"\",\n                salt,\n            )", "            USMSecurityParameters(\n                target_engine,\n                boots,\n                ticks,\n                user,\n                b\"\",\n                salt,\n            )")], expect="silent")
multi("s-move-validate-response-id", ["C07", "C12"], [(UTIL, "def validate_response_id(request_id: int, response_id: int) -> None:\n    \"\"\"\n    Compare request and response IDs and raise an appropriate error.\n\n    Raises an appropriate error if the IDs differ. Otherwise returns\n\n    This helper method ensures we're always returning the same exception type\n    on invalid response IDs.\n    \"\"\"\n    if response_id != request_id:\n        raise InvalidResponseId(\n            f\"Invalid response ID {response_id} for request id {request_id}\"\n        )\n", "from puresnmp.exc import check_response_id as validate_response_id  # noqa\n"), ("puresnmp/exc.py", "class MissingPlugin(SnmpError):", "def check_response_id(request_id: int, response_id: int) -> None:\n    if response_id != request_id:\n        raise InvalidResponseId(\n            f\"Invalid response ID {response_id} for request id {request_id}\"\n        )\n\n\nclass MissingPlugin(SnmpError):")], expect="silent", note="validator moved to another module and renamed; util re-exports it")
