#!/venv/bin/python
"""
Checker validation (DESIGN.md section 6): every mutant is applied to a scratch
copy of <repo>/src made outside /repo and /verif, the variant must still
compile, and the named property check must fire (exit 1 + VIOLATION) or stay
silent (exit 0) as recorded.  The outcome never changes the verdict on the
working tree; it is reported as information.

usage: run.py [--only C07,C08] [--ids m1,m2] [--jobs 16] [--repo /repo] [-v]
"""
from __future__ import annotations

import argparse
import json
import os
import shutil
import subprocess
import sys
import tempfile
from concurrent.futures import ThreadPoolExecutor

HERE = os.path.dirname(os.path.abspath(__file__))
VERIF = os.path.dirname(os.path.dirname(HERE))
sys.path.insert(0, VERIF)

from sa.selftest.mutants import MUTANTS  # noqa: E402


def apply(mutant, root):
    if mutant["kind"] == "patch":
        path = os.path.join(HERE, mutant["patch"])
        res = subprocess.run(["patch", "-p1", "-s", "-F3", "-i", path], cwd=root, capture_output=True, text=True)
        if res.returncode != 0:
            return f"patch failed: {res.stdout} {res.stderr}"
        return None
    edits = mutant.get("edits") or [mutant]
    for edit in edits:
        if edit["file"].startswith("x690/"):
            import importlib.util

            base = list(importlib.util.find_spec("x690").submodule_search_locations)[0]
            dest = os.path.join(root, "_x690_override")
            if not os.path.isdir(dest):
                shutil.copytree(base, dest, ignore=shutil.ignore_patterns("__pycache__"))
            path = os.path.join(dest, edit["file"][5:])
        else:
            path = os.path.join(root, "src", edit["file"])
        with open(path, "r", encoding="utf8") as fptr:
            src = fptr.read()
        count = src.count(edit["old"])
        if count != edit.get("count", 1):
            return f"stale mutant: {edit['old'][:50]!r} occurs {count}x in {edit['file']}"
        src = src.replace(edit["old"], edit["new"])
        try:
            compile(src, path, "exec")
        except SyntaxError as exc:
            return f"variant does not compile: {exc}"
        with open(path, "w", encoding="utf8") as fptr:
            fptr.write(src)
    return None


def run_one(mutant, repo):
    tmp = tempfile.mkdtemp(prefix="verif-selftest-")
    try:
        shutil.copytree(os.path.join(repo, "src"), os.path.join(tmp, "src"), ignore=shutil.ignore_patterns("__pycache__", "*.egg-info"))
        err = apply(mutant, tmp)
        if err:
            return {"id": mutant["id"], "status": "stale", "detail": err}
        results = {}
        ok = True
        for prop in mutant["props"]:
            env = dict(os.environ, VERIF_EVIDENCE_DIR=os.path.join(tmp, "evidence"))
            res = subprocess.run(
                ["/venv/bin/python", os.path.join(VERIF, "sa", "check.py"), prop, "--repo", tmp],
                capture_output=True,
                text=True,
                env=env,
                timeout=120,
            )
            fired = res.returncode == 1 and "VIOLATION property=" + prop in res.stdout
            lines = [l for l in res.stdout.splitlines() if l.startswith(("VIOLATION", "ANALYSIS-ERROR", "  C")) and ("VIOLATION" in l or "ANALYSIS" in l or " at " in l)]
            results[prop] = {"exit": res.returncode, "fired": fired, "lines": lines[:6], "stderr": res.stderr[-300:]}
            want = mutant["expect"]
            if want == "fire" and not fired:
                ok = False
            if want == "silent" and res.returncode != 0:
                ok = False
        return {"id": mutant["id"], "status": "ok" if ok else "FAIL", "expect": mutant["expect"], "results": results}
    finally:
        shutil.rmtree(tmp, ignore_errors=True)


def main() -> int:
    ap = argparse.ArgumentParser()
    ap.add_argument("--only", default="")
    ap.add_argument("--ids", default="")
    ap.add_argument("--jobs", type=int, default=16)
    ap.add_argument("--repo", default="/repo")
    ap.add_argument("-v", action="store_true")
    ap.add_argument("--json", default="")
    args = ap.parse_args()
    only = set(filter(None, args.only.split(",")))
    ids = set(filter(None, args.ids.split(",")))
    todo = [m for m in MUTANTS if (not only or set(m["props"]) & only) and (not ids or m["id"] in ids)]
    with ThreadPoolExecutor(args.jobs) as pool:
        results = list(pool.map(lambda m: run_one(m, args.repo), todo))
    bad = 0
    for res in results:
        if res["status"] != "ok" or args.v:
            print(json.dumps(res))
        if res["status"] == "FAIL":
            bad += 1
    stale = sum(1 for r in results if r["status"] == "stale")
    print(f"selftest: {len(results)} variants, {len(results) - bad - stale} as expected, {bad} unexpected, {stale} stale")
    if args.json:
        with open(args.json, "w", encoding="utf8") as fptr:
            json.dump(results, fptr, indent=1)
    return 1 if bad else 0


if __name__ == "__main__":
    sys.exit(main())
