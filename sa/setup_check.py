#!/venv/bin/python
"""setup_cmd: nothing is built; verify that what the checks need is present."""
import importlib.util
import os
import sys

problems = []
if sys.version_info < (3, 9):
    problems.append("python >= 3.9 needed for ast.unparse")
spec = importlib.util.find_spec("x690")
if spec is None or not spec.submodule_search_locations:
    problems.append("x690 source not found in the repository's environment")
else:
    base = list(spec.submodule_search_locations)[0]
    for name in ("types.py", "util.py"):
        if not os.path.exists(os.path.join(base, name)):
            problems.append(f"x690/{name} missing")
if not os.path.isdir("/repo/src/puresnmp"):
    problems.append("/repo/src/puresnmp missing")
if importlib.util.find_spec("mypy") is None:
    print("note: mypy not importable; thorough-tier type cross-checks will be reported as skipped")
os.makedirs(os.path.join(os.path.dirname(os.path.dirname(os.path.abspath(__file__))), "evidence"), exist_ok=True)
if problems:
    print("SETUP-ERROR: " + "; ".join(problems))
    sys.exit(1)
print("setup ok")
