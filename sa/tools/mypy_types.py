#!/venv/bin/python
"""
Prints, as JSON, mypy's inferred types of everything the public methods of the
class exported as puresnmp.PyWrapper return or yield (and of the arguments of a
BulkResult construction that is returned).  Run in its own process (mypy's
teardown is slow, so the process ends with os._exit).
usage: mypy_types.py <repo>
"""
import json
import os
import sys


def main() -> None:
    repo = sys.argv[1]
    try:
        from mypy import build
        from mypy.find_sources import create_source_list
        from mypy.nodes import CallExpr, ClassDef, ExpressionStmt, FuncDef, NameExpr, ReturnStmt, YieldExpr
        from mypy.options import Options
    except Exception as exc:  # pylint: disable=broad-except
        print(json.dumps({"error": f"mypy not importable: {exc}"}))
        return
    os.chdir(repo)
    opts = Options()
    opts.preserve_asts = True
    opts.export_types = True
    opts.incremental = False
    opts.cache_dir = os.devnull
    opts.namespace_packages = True
    opts.explicit_package_bases = True
    opts.mypy_path = ["src"]
    opts.ignore_missing_imports = True
    opts.follow_imports = "silent"
    try:
        srcs = create_source_list(["src/puresnmp/api/pythonic.py"], opts)
        res = build.build(srcs, opts)
    except Exception as exc:  # pylint: disable=broad-except
        print(json.dumps({"error": f"mypy build failed: {type(exc).__name__}: {exc}"}))
        return
    tree = res.files.get("puresnmp.api.pythonic")
    if tree is None:
        print(json.dumps({"error": "module puresnmp.api.pythonic not built"}))
        return
    types = res.types
    out = []

    def visit(stmts, meth):
        for s in stmts:
            if isinstance(s, ReturnStmt) and s.expr is not None:
                out.append({"method": meth, "kind": "return", "line": s.line, "type": str(types.get(s.expr))})
                if isinstance(s.expr, CallExpr) and isinstance(s.expr.callee, NameExpr) and s.expr.callee.name == "BulkResult":
                    for i, a in enumerate(s.expr.args):
                        out.append({"method": meth, "kind": f"return-arg{i}", "line": s.line, "type": str(types.get(a))})
            if isinstance(s, ExpressionStmt) and isinstance(s.expr, YieldExpr) and s.expr.expr is not None:
                out.append({"method": meth, "kind": "yield", "line": s.line, "type": str(types.get(s.expr.expr))})
            for attr in ("body", "else_body"):
                b = getattr(s, attr, None)
                if b is None:
                    continue
                if hasattr(b, "body"):
                    visit(b.body, meth)
                elif isinstance(b, list):
                    for x in b:
                        if hasattr(x, "body"):
                            visit(x.body, meth)

    for d in tree.defs:
        if isinstance(d, ClassDef) and d.name == "PyWrapper":
            for m in d.defs.body:
                if isinstance(m, FuncDef) and not m.name.startswith("_"):
                    visit(m.body.body, m.name)
    print(json.dumps({"types": out, "mypy_errors": len(res.errors)}))


if __name__ == "__main__":
    main()
    sys.stdout.flush()
    os._exit(0)
