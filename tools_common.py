"""Shared by the bookkeeping tools: run all twenty checks over one scratch tree in one process (check.py ALL)."""
import os, re, subprocess
VERIF = os.path.dirname(os.path.abspath(__file__))


def run_all(repo_dir, evidence_dir, timeout=900):
    """{property: (exit code, that property's part of the output)} for the tree under *repo_dir* (holding src/)."""
    env = dict(os.environ, VERIF_EVIDENCE_DIR=evidence_dir)
    res = subprocess.run(["/venv/bin/python", os.path.join(VERIF, "sa", "check.py"), "ALL", "--repo", repo_dir], capture_output=True, text=True, env=env, timeout=timeout)
    text = res.stdout + res.stderr
    codes = {}
    m = re.search(r"^RESULT-CODES (.*)$", text, re.M)
    if m:
        for item in m.group(1).split():
            pid, code = item.split("=")
            codes[pid] = int(code)
    # output per property: from its "== Cxx [" header (KNOWN-FINDING lines come just before it) to the next header
    parts = {}
    cur = None
    pending = []
    for line in text.splitlines():
        hm = re.match(r"^== (C\d\d) \[", line)
        if hm:
            cur = hm.group(1)
            parts[cur] = pending + [line]
            pending = []
        elif line.startswith("KNOWN-FINDING: property="):
            pending.append(line)
        elif cur is not None:
            parts[cur].append(line)
    out = {}
    for n in range(1, 21):
        pid = f"C{n:02d}"
        out[pid] = (codes.get(pid, 2), "\n".join(parts.get(pid, [])))
    return out
