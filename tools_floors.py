#!/venv/bin/python
"""Lowers the instance floors of the rules to half of the instance counts on the current tree (never raises one)."""
import re, glob, subprocess
counts={}
for p in range(1,21):
    pid=f"C{p:02d}"
    out=subprocess.run(["/venv/bin/python","/verif/sa/check.py",pid],capture_output=True,text=True).stdout
    for m in re.finditer(r"^  (C\d\d-R\d+): (\d+) instance", out, re.M):
        counts[m.group(1)]=int(m.group(2))
    for m in re.finditer(r"rule (C\d\d-R\d+) matched (\d+) instance", out):
        counts[m.group(1)]=int(m.group(2))
changed=0
for f in sorted(glob.glob('/verif/sa/rules/c[0-9][0-9].py')):
    s=open(f).read()
    def fix(m):
        global changed
        rule=m.group(1); floor=int(m.group(3))
        cnt=counts.get(rule)
        if cnt is None: return m.group(0)
        new=max(1,(cnt+1)//2)
        if floor>new:
            changed+=1
            return f'rep.rule("{rule}", {m.group(2)}, floor={new})'
        return m.group(0)
    s2=re.sub(r'rep\.rule\("(C\d\d-R\d+)", (".*?"), floor=(\d+)\)', fix, s)
    open(f,'w').write(s2)
print("floors lowered:", changed)
