#!/venv/bin/python
"""Regenerates MANIFEST.json from the table below (kept in one place so that it stays valid)."""
import json, os
HERE = os.path.dirname(os.path.abspath(__file__))
import sys
sys.path.insert(0, HERE)
from sa.manifest_data import CHECKS, NOT_APPLICABLE, NOTES

def main():
    checks = []
    for pid, info in sorted(CHECKS.items()):
        checks.append({
            "property_id": pid,
            "quick_cmd": f"/venv/bin/python sa/check.py {pid} --tier quick",
            "thorough_cmd": f"/venv/bin/python sa/check.py {pid} --tier thorough",
            "evidence_file": f"/verif/evidence/{pid}.json",
            "replay_cmd_template": "cat {path}",
            "engine": "sa",
            "level_claimed": {"category": info.get("category", "other"), "text": info["text"], "design_ref": f"DESIGN.md section 5, {pid}"},
            "level_note": info["note"],
            "technique": info["technique"],
        })
    manifest = {
        "version": 1,
        "setup_cmd": "/venv/bin/python sa/setup_check.py",
        "hooks": {
            "guard": "EXHUMA_PURESNMP_VERIF",
            "enable": "none needed: the analysis reads the source of /repo's working tree; no instrumentation is compiled in",
            "baseline_off_cmd": "cd /repo && /venv/bin/python -m pytest -ra -q -p no:cacheprovider --timeout=900 --continue-on-collection-errors",
            "source_commits": [],
            "add_only": True,
        },
        "engines": [{
            "name": "sa",
            "path": "/verif/sa",
            "serves_properties": sorted(CHECKS),
            "kind_free_text": "repository-specific static analysis: resolved symbol table, class hierarchy with constant evaluation, per-function CFGs with path simulation, value numbering, guard facts, BER shape evaluation against RFC tables; pure stdlib ast, run with the repository's own interpreter",
        }],
        "checks": checks,
        "notes": NOTES,
        "not_applicable": [{"property_id": k, "reason": v} for k, v in sorted(NOT_APPLICABLE.items())],
    }
    with open(os.path.join(HERE, "MANIFEST.json"), "w") as f:
        json.dump(manifest, f, indent=1)
        f.write("\n")

if __name__ == "__main__":
    main()
