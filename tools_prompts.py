#!/venv/bin/python
"""
Writes the prompt files for a wave of independent sub-agents (bookkeeping only;
decides nothing).  Each agent works in its own scratch worktree of /repo under
/tmp/seed/<ID> and sees nothing of /verif.

usage: tools_prompts.py <wave prefix, e.g. W5> [--bugs C01,C02,...|all] [--benign N]
  bug agents      <prefix><nn>   one per property, two breaking changes each
  benign agents   <prefix>B<k>   four property-preserving changes each (theme k)
Creates the worktrees (git -C /repo worktree add --detach) and /tmp/seed/prompts/<ID>.txt.
"""
import json, os, subprocess, sys

VERIF = os.path.dirname(os.path.abspath(__file__))
SEED = "/tmp/seed"

BUG_FOCUS = {
    "W5": "Additional guidance for this round: do NOT change the function that most obviously implements the property. Break the property from a distance instead: in a helper, a data class, a base class, a plug-in, a module-level constant, a default argument, an `__init__`, an exception class hierarchy, a type registered at import time, or in the way two modules cooperate (caller and callee each look fine alone). Study the call chain first (src/puresnmp/api/raw.py, api/pythonic.py, util.py, pdu.py, adt.py, types.py, varbind.py, transport.py, credentials.py, exc.py, plugins/*.py, src/puresnmp_plugins/**). The two changes must be in different files and of different kinds. Disguise each as something a reviewer would approve (clean-up, typing fix, optimisation, logging, robustness).",
    "W6": "Additional guidance for this round: write the change the way a real refactoring would look - move code into a new helper function or method, rename variables, convert a loop into a comprehension (or back), merge two loops, introduce a small class or dataclass, replace index arithmetic by zip/enumerate/slicing - and hide the defect inside that refactoring, so that the diff is 15-60 lines of mostly behaviour-preserving restructuring with one semantic slip. The two changes must be in different functions and of different kinds.",
    "W7": "Additional guidance for this round: make each change TINY - at most three changed lines, ideally one token: an operator (< vs <=, and vs or, is vs ==, + vs -), operator precedence or a missing pair of parentheses, a boundary constant or default value, a slice bound, the key of a sort, an exception class in an except clause or a raise, an argument order, a swapped pair of variables of the same type, a mutable default argument, `min` vs `max`, an attribute read of the wrong object (self.x vs other.x). Choose places where the existing tests happen not to look: argument values at the edges of what the API accepts (empty list, one element, duplicates, zero / negative / huge numbers, retries=1, bulk size 1, empty community or password, maximum message size, engine boots near 2**31, OIDs with large sub-identifiers, long values that need multi-byte BER lengths) and the less travelled modules (src/puresnmp/util.py, types.py, varbind.py, credentials.py, exc.py, transport.py, plugins/*.py, src/puresnmp_plugins/auth/*.py, priv/*.py, security/*.py, mpm/*.py). The two changes must be in different files and of different kinds.",
}
BUG_FOCUS["W8"] = "Additional guidance for this round: put the defect on a path that is NOT the happy path - an exception handler, a clean-up or `finally` block, a retry or fallback branch, a cancellation (`asyncio.CancelledError`, `wait_for`), a branch taken only for unusual-but-legal agent behaviour (error-status with odd error-index, endOfMibView in the middle, reports, truncated GETBULK responses, duplicate or late datagrams, discovery replies with unusual values), or for unusual-but-legal caller input (empty list, duplicates, zero, maximum sizes). The happy path must stay bit-identical. 2-12 changed lines per change; the two changes in different files or functions and of different kinds."
BUG_FOCUS_DEFAULT = "Additional guidance for this round: be creative and look beyond the most obvious function; prefer semantically subtle changes. The two changes must be of different kinds and in different functions."

BENIGN_THEMES = [
    "behaviour-preserving REFACTORINGS of src/puresnmp/api/raw.py (Client.multiwalk, multigetnext, _bulkget_varbinds, _bulkwalk_fetcher, bulkget, multiset, _send, configure, register_trap_callback): extract or inline helpers, rename locals, comprehension <-> loop, guard clauses, reorder independent statements, replace index arithmetic by zip/enumerate (only where exactly equivalent)",
    "behaviour-preserving REFACTORINGS of src/puresnmp_plugins/security/usm.py and src/puresnmp_plugins/mpm/v3.py (apply_authentication, verify_authentication, apply_encryption, decrypt_message, process_incoming_message, send_discovery_message, validate_usm_message, V3MPM.encode/decode, is_confirmed): extract helpers, intermediate locals, early returns, move a function to another module and import it back, module-level named constants",
    "behaviour-preserving REFACTORINGS of src/puresnmp/pdu.py, src/puresnmp/adt.py, src/puresnmp/types.py, src/puresnmp/util.py, src/puresnmp/varbind.py and src/puresnmp/exc.py (PDU.decode_raw / encode_raw, BulkGetRequest, Message/HeaderData/V3Flags/ScopedPDU encode+decode, Counter/Counter64/TimeTicks/IpAddress, group_varbinds, get_unfinished_walk_oids, tablify, validate_response_id, ErrorResponse.construct)",
    "behaviour-preserving REFACTORINGS of src/puresnmp/transport.py, src/puresnmp/api/pythonic.py, src/puresnmp_plugins/security/v1.py + v2c.py, src/puresnmp_plugins/mpm/v1.py + v2c.py, src/puresnmp_plugins/auth/*.py (send_udp retry loop, SNMPClientProtocol, SNMPTrapReceiverProtocol, PyWrapper methods, community checks, digest helpers)",
    "small FEATURES in the API layer that keep today's behaviour by default: new optional keyword arguments, new public helper methods on Client / PyWrapper built from existing ones, richer __repr__/__str__, accepting more input types (tuple, generator) where the result is the same, stricter validation of arguments that could never have worked",
    "DIAGNOSTICS and ROBUSTNESS that do not alter results: more log lines (debug/info) in walk / send / USM / transport code, clearer exception messages, new exception subclasses of the existing ones raised in the same situations, chaining with `from exc`, assertions replaced by explicit raises of the same class, type annotations, docstrings with doctests",
    "PERFORMANCE-minded rewrites that are exactly equivalent: caching of immutable lookups (functools.lru_cache on pure functions of hashable arguments), hoisting loop-invariant computations, local-variable aliases of attributes that cannot change meanwhile, `''.join` / bytes concatenation rewrites, set/dict literal instead of constructor calls, generator expressions vs lists where the consumer iterates exactly once",
    "MODERNISATION: dataclass / NamedTuple field defaults, `typing` clean-ups, f-strings, `super()` without arguments, pathlib-free import clean-ups, `__all__`, `__slots__` where safe, replacing `type(x) == T` by `isinstance` ONLY where no subclass relation exists between the candidate classes, walrus operator, `match` is not allowed (python 3.8 compatible code only)",
]

BUG_FOCUS["W9"] = "Additional guidance for this round: free style - surprise the tool. Ideas: a change that is only wrong in combination with an existing quirk elsewhere in the code (read the callers and callees first); a default value or constant that silently changes meaning; state that leaks between two objects that should be independent; an `async` ordering change (something read before an await and used after it, or written after it); a comparison between values of different types that is always false/true; a copy that became an alias (or the reverse); integer / bytes / str confusions; `sorted` / `set` / `dict` ordering assumptions; an exception class moved in the hierarchy. Keep each change small (2-15 changed lines) and plausible as a clean-up or optimisation. The two changes must be in different files and of different kinds."
BENIGN_THEMES_BY_PREFIX = {
    "W8": BENIGN_THEMES + [
        "ASYNC RESTRUCTURING that keeps every await in the same order relative to reads and writes of shared state: `async for` <-> explicit `__anext__` loops where equivalent, helper coroutines extracted / inlined, `asyncio.ensure_future` vs `loop.create_task` for the trap callback, context managers around the retry loop that do nothing on exit, `try/finally` clean-ups that are equivalent to the existing ones",
        "OBSERVABILITY HOOKS that default to off: optional `on_request` / `on_response` callbacks or a metrics counter object on Client / transport that only *observe* (called with copies or immutable values), structured log records (`extra=`), `__repr__` for data classes, timing measurements with `time.perf_counter` that are never used for protocol decisions",
        "STRICTER TYPING AND PY3.8-COMPATIBLE MODERNISATION of src/puresnmp_plugins/** and src/puresnmp/plugins/**: Protocol classes for plug-in modules, `Final`, `Literal`, explicit `Optional`, keyword-only arguments for private helpers (all call sites updated), `typing.cast` removed where an isinstance check exists already, `dataclasses.field(default_factory=...)`",
        "DEAD-CODE AND DUPLICATION CLEAN-UP: merge the two nearly identical community security models / MPMs through a shared private base class or helper while keeping both plug-in modules and identifiers; remove unused imports / variables; unify duplicated error messages through constants; fold `is_confirmed` style predicates into a table; everything observable stays as it is",
    ],
    "W9": [],
    "W7": [
        "MODULE REORGANISATION that keeps every existing import path working: move a group of functions or classes into a new module (for example the walk helpers of puresnmp/util.py into puresnmp/walk.py, the error classes for agent error-status into puresnmp/errors.py, the SNMPv3 data classes into a sub-module) and re-export them from the old module (`from .new import name  # re-export`), update internal imports to the new location in some places and leave the old ones elsewhere",
        "RENAMING of private names throughout: private methods and attributes of Client, PyWrapper, V3MPM, UserSecurityModel, SNMPClientProtocol (leading underscore names, local variables, parameters of private functions, module-level private constants). Public names and keyword arguments of public functions keep their names. Rename consistently at every use",
        "A NEW PLUG-IN next to the existing ones that changes nothing for today's users: for example an authentication plug-in module for another hash built with the same hashbase helpers, a privacy plug-in skeleton that raises NotImplementedError, a message-processing / security model alias module; plus the small registry or loader tweaks it needs. Existing identifiers, tables and behaviour stay exactly as they are",
        "NEW PUBLIC CONVENIENCE API built only from existing operations, existing behaviour unchanged: e.g. Client.walk_values(), Client.exists(oid), Client.get_many as alias, PyWrapper.get_str(), an async context manager on Client, `Client.from_url()`, a `limit=` keyword on walk() that stops the iteration in the caller-facing generator only (default None = today's behaviour)",
        "DEFENSIVE INPUT VALIDATION at the public API boundary that only rejects calls that could never have worked or silently misbehaved before (wrong types, negative sizes, empty OID lists where the agent would be asked nothing), with clear exceptions of existing classes (TypeError / ValueError / SnmpError); every call that worked before still behaves identically",
        "CONVERSION OF CLOSURES AND CALLBACK FUNCTIONS INTO SMALL CLASSES (or the reverse): the transport handler closure in Client.__init__, the bulk-walk fetcher closure, the trap decode closure in register_trap_callback, the hash plug-in factories, the timing cache of the USM as a tiny class with get/set methods; behaviour identical, same objects reachable under the same public attribute names",
        "CONTROL-FLOW RESTRUCTURING without change of meaning in the long functions: replace nested if/else by guard clauses or the reverse, `while` with a counter by `for ... in range` only where exactly equivalent, try/except/else/finally re-nesting that keeps every exception path, flags replaced by early returns, loops split in two passes where no data dependency exists, `for`/`else` introduced or removed",
        "TYPE-LEVEL AND DATA-MODEL CLEAN-UPS: NamedTuple <-> frozen dataclass where tuple behaviour (unpacking, indexing, ordering) is preserved by adding the needed dunder methods, Enum / IntEnum for integer constants that are only compared, TypedDict / Protocol annotations, `Final` constants, `Optional` made explicit, overloads; values on the wire and results stay bit-identical",
    ],
}

BENIGN_THEMES_BY_PREFIX["W9"] = BENIGN_THEMES_BY_PREFIX["W7"] + BENIGN_THEMES_BY_PREFIX["W8"][8:]
BENIGN_THEMES_BY_PREFIX["W10"] = [BENIGN_THEMES_BY_PREFIX["W7"][5], BENIGN_THEMES_BY_PREFIX["W7"][6], BENIGN_THEMES_BY_PREFIX["W8"][8], BENIGN_THEMES_BY_PREFIX["W8"][11]]
BUG_FOCUS["W11"] = BUG_FOCUS_W10 = None
BUG_FOCUS["W10"] = "Additional guidance for this round: work in the less travelled code - src/puresnmp/api/pythonic.py, src/puresnmp/varbind.py, src/puresnmp/transport.py (also `listen`), src/puresnmp/credentials.py, src/puresnmp/adt.py, src/puresnmp/plugins/*.py, src/puresnmp_plugins/**, src/puresnmp/util.py helpers other than the obvious one - and prefer a change whose effect travels: a value computed in one module and consumed in another, a default that meets a caller elsewhere, an object shared where a copy was expected, a check that moved before / after the thing it protects. Keep each change small (2-12 changed lines) and plausible as a clean-up, optimisation or robustness fix. The two changes must be in different files and of different kinds."

BUG_FOCUS["W11"] = BUG_FOCUS["W10"]
BUG_FOCUS["W12"] = "Additional guidance for this round: prefer a defect that needs a MULTI-STEP HISTORY to show: state that survives from one call to the next on the same Client / security model / protocol object (counters, caches, request ids, configuration stacks, pending futures, lists that grow), a second or third call behaving differently from the first, two nested or overlapping uses of the same context manager, an operation issued after a failed / timed-out / cancelled one, a long walk that crosses an internal threshold. A single first call on a fresh client must behave exactly as before. Keep each change small (2-12 changed lines) and plausible as a clean-up, optimisation or robustness fix. The two changes must be in different files or functions and of different kinds."


def props():
    return [json.loads(l) for l in open(os.path.join(VERIF, "properties.jsonl")) if l.strip()]


def bug_prompt(wid, prop, focus):
    wt = f"{SEED}/{wid}"
    return f"""You are helping test a verification tool by writing a realistic *bug* for an open-source Python library. Work ONLY inside the git worktree at {wt} (a checkout of exhuma/puresnmp, a pure-Python asyncio SNMP client; sources under src/puresnmp and src/puresnmp_plugins, tests under tests/). Do not read or touch /verif or /repo or any other /tmp/seed/* directory. The Python to use is /venv/bin/python (the package is importable from an editable install of /repo, so ALWAYS run Python with PYTHONPATH={wt}/src so that your worktree's sources are the ones imported; verify with: PYTHONPATH={wt}/src /venv/bin/python -c "import puresnmp; print(puresnmp.__file__)").

The property the library is supposed to satisfy:

  Title: {prop['title']}
  Statement: {prop['statement']}
  Quantified over: {prop['quantifier']['text']}

Your task: produce TWO different, independent source changes (each a small edit of files under src/, like a plausible regression a maintainer could introduce during a refactoring or "optimisation") that BREAK this property, such that for each change:
  1. the package still imports/compiles;
  2. the existing test suite still passes completely: run   cd {wt} && PYTHONPATH={wt}/src /venv/bin/python -m pytest -q -p no:cacheprovider -x   (174 passed is the baseline; it must stay green with your change applied);
  3. the breakage needs something specific to manifest - a particular input, agent behaviour, interleaving, sequence of operations, boundary value or two cooperating code sites that each look fine alone - NOT something that ordinary use would expose at once;
  4. you provide a demonstration: a small standalone Python script (or pytest test file) that FAILS (non-zero exit / failing assertion) with your change applied and PASSES on the unchanged sources. The demonstration may simulate an SNMP agent by passing a custom async `sender` callable to `puresnmp.Client(ip, credentials, sender=...)` (signature: async def sender(endpoint, packet, timeout=..., retries=...) -> bytes), by calling library functions directly, or by using mocks. Run it both ways and confirm.
Prefer changes that are semantically subtle (off-by-one, wrong operand, dropped guard on one path, wrong constant, swapped arguments, stale variable, reordered statements, state shared where it should not be) over crude ones (deleting a whole function). Make the two changes differ in location and nature.

Deliverables - create the directory {wt}/seed_out containing:
  change1.diff, change2.diff   (each produced with `git diff` inside the worktree with ONLY that change applied; paths relative to the repo root, i.e. src/...)
  demo1.py, demo2.py           (the demonstrations; they must take the sources from PYTHONPATH; if they share a helper module put it into seed_out too)
  notes.md                     (one section per change headed "## Change 1 - <title>" / "## Change 2 - <title>": what it breaks, a paragraph starting "What is needed for it to manifest:", and the exact commands you ran with their outcomes: test suite with the change, demo with the change (fails), demo without the change (passes))
Leave the worktree's tracked files UNCHANGED at the end (git checkout -- . ; seed_out is untracked). NEVER use `git stash` (the stash is shared between worktrees of other people); undo edits with `git checkout -- .` only. Finish by replying with a short summary of the two changes.
{focus}
"""


def benign_prompt(wid, theme, plist):
    wt = f"{SEED}/{wid}"
    listing = "\n".join(f"  {p['id']}: {p['title']} - {p['statement']}" for p in plist)
    return f"""You are helping test a static-analysis tool for false alarms. Work ONLY inside the git worktree at {wt} (a checkout of exhuma/puresnmp, a pure-Python asyncio SNMP client; sources under src/puresnmp and src/puresnmp_plugins, tests under tests/). Do not read or touch /verif or /repo or any other /tmp/seed/* directory. Use /venv/bin/python and ALWAYS run Python with PYTHONPATH={wt}/src so that your worktree's sources are imported.

The library is supposed to satisfy the following twenty properties:
{listing}

Task: produce FOUR independent small changes that a maintainer could plausibly commit and that KEEP ALL TWENTY PROPERTIES TRUE for every input. Theme for your four changes: {theme}.
Each change must: keep the package importable; keep the existing test suite green (cd {wt} && PYTHONPATH={wt}/src /venv/bin/python -m pytest -q -p no:cacheprovider -x  -> 174 passed); change 8-70 lines; and genuinely preserve every one of the twenty properties for all inputs (think carefully - if a change could violate a property in some corner case, pick another change; do not change what is sent on the wire, what is accepted, what is returned or raised in any situation the properties talk about). Be bold about the *form* of the code (that is what is being tested) and conservative about its meaning. Each of the four should touch different functions.

For each change k=1..4: apply it alone on a clean tree, run the suite, save it as {wt}/seed_out/change<k>.diff (git diff with ONLY that change; paths relative to the repo root), then git checkout -- . Also write {wt}/seed_out/notes.md with one section per change headed "## change<k>.diff - <title>": what it does and a short argument why each potentially affected property still holds. Leave tracked files unchanged at the end. NEVER use `git stash` (shared between worktrees); undo edits with `git checkout -- .` only. Reply with a short summary.
"""


def main():
    prefix = sys.argv[1]
    bugs = sys.argv[sys.argv.index("--bugs") + 1] if "--bugs" in sys.argv else "all"
    nbenign = int(sys.argv[sys.argv.index("--benign") + 1]) if "--benign" in sys.argv else 0
    plist = props()
    os.makedirs(f"{SEED}/prompts", exist_ok=True)
    ids = []
    focus = BUG_FOCUS.get(prefix, BUG_FOCUS_DEFAULT)
    for p in plist:
        if bugs != "all" and p["id"] not in bugs.split(","):
            continue
        if bugs == "none":
            continue
        wid = f"{prefix}{p['id'][1:]}"
        ids.append(wid)
        open(f"{SEED}/prompts/{wid}.txt", "w").write(bug_prompt(wid, p, focus))
    for k in range(1, nbenign + 1):
        wid = f"{prefix}B{k}"
        ids.append(wid)
        open(f"{SEED}/prompts/{wid}.txt", "w").write(benign_prompt(wid, BENIGN_THEMES_BY_PREFIX.get(prefix, BENIGN_THEMES)[(k - 1) % len(BENIGN_THEMES_BY_PREFIX.get(prefix, BENIGN_THEMES))], plist))
    for wid in ids:
        wt = f"{SEED}/{wid}"
        if not os.path.exists(wt):
            subprocess.run(["git", "-C", "/repo", "worktree", "add", "-q", "--detach", wt, "HEAD"], check=True)
    print(" ".join(ids))


if __name__ == "__main__":
    main()
