#!/venv/bin/python
"""
Writes the prompt files for a wave of independent sub-agents (bookkeeping only;
decides nothing).  Each agent works in its own scratch worktree of /repo under
/tmp/seed/<ID> and sees nothing of /verif.

usage: tools_prompts.py <wave prefix, e.g. W5> [--bugs C01,C02,...|all] [--benign N]
  bug agents      <prefix><nn>   one per property, two breaking changes each
  benign agents   <prefix>B<k>   four property-preserving changes each (theme k)
Creates the worktrees (git -C /repo worktree add --detach) and /tmp/seed/prompts/<ID>.txt.
"""
import json, os, subprocess, sys

VERIF = os.path.dirname(os.path.abspath(__file__))
SEED = "/tmp/seed"

BUG_FOCUS = {
    "W5": "Additional guidance for this round: do NOT change the function that most obviously implements the property. Break the property from a distance instead: in a helper, a data class, a base class, a plug-in, a module-level constant, a default argument, an `__init__`, an exception class hierarchy, a type registered at import time, or in the way two modules cooperate (caller and callee each look fine alone). Study the call chain first (src/puresnmp/api/raw.py, api/pythonic.py, util.py, pdu.py, adt.py, types.py, varbind.py, transport.py, credentials.py, exc.py, plugins/*.py, src/puresnmp_plugins/**). The two changes must be in different files and of different kinds. Disguise each as something a reviewer would approve (clean-up, typing fix, optimisation, logging, robustness).",
    "W6": "Additional guidance for this round: write the change the way a real refactoring would look - move code into a new helper function or method, rename variables, convert a loop into a comprehension (or back), merge two loops, introduce a small class or dataclass, replace index arithmetic by zip/enumerate/slicing - and hide the defect inside that refactoring, so that the diff is 15-60 lines of mostly behaviour-preserving restructuring with one semantic slip. The two changes must be in different functions and of different kinds.",
}
BUG_FOCUS_DEFAULT = "Additional guidance for this round: be creative and look beyond the most obvious function; prefer semantically subtle changes. The two changes must be of different kinds and in different functions."

BENIGN_THEMES = [
    "behaviour-preserving REFACTORINGS of src/puresnmp/api/raw.py (Client.multiwalk, multigetnext, _bulkget_varbinds, _bulkwalk_fetcher, bulkget, multiset, _send, configure, register_trap_callback): extract or inline helpers, rename locals, comprehension <-> loop, guard clauses, reorder independent statements, replace index arithmetic by zip/enumerate (only where exactly equivalent)",
    "behaviour-preserving REFACTORINGS of src/puresnmp_plugins/security/usm.py and src/puresnmp_plugins/mpm/v3.py (apply_authentication, verify_authentication, apply_encryption, decrypt_message, process_incoming_message, send_discovery_message, validate_usm_message, V3MPM.encode/decode, is_confirmed): extract helpers, intermediate locals, early returns, move a function to another module and import it back, module-level named constants",
    "behaviour-preserving REFACTORINGS of src/puresnmp/pdu.py, src/puresnmp/adt.py, src/puresnmp/types.py, src/puresnmp/util.py, src/puresnmp/varbind.py and src/puresnmp/exc.py (PDU.decode_raw / encode_raw, BulkGetRequest, Message/HeaderData/V3Flags/ScopedPDU encode+decode, Counter/Counter64/TimeTicks/IpAddress, group_varbinds, get_unfinished_walk_oids, tablify, validate_response_id, ErrorResponse.construct)",
    "behaviour-preserving REFACTORINGS of src/puresnmp/transport.py, src/puresnmp/api/pythonic.py, src/puresnmp_plugins/security/v1.py + v2c.py, src/puresnmp_plugins/mpm/v1.py + v2c.py, src/puresnmp_plugins/auth/*.py (send_udp retry loop, SNMPClientProtocol, SNMPTrapReceiverProtocol, PyWrapper methods, community checks, digest helpers)",
    "small FEATURES in the API layer that keep today's behaviour by default: new optional keyword arguments, new public helper methods on Client / PyWrapper built from existing ones, richer __repr__/__str__, accepting more input types (tuple, generator) where the result is the same, stricter validation of arguments that could never have worked",
    "DIAGNOSTICS and ROBUSTNESS that do not alter results: more log lines (debug/info) in walk / send / USM / transport code, clearer exception messages, new exception subclasses of the existing ones raised in the same situations, chaining with `from exc`, assertions replaced by explicit raises of the same class, type annotations, docstrings with doctests",
    "PERFORMANCE-minded rewrites that are exactly equivalent: caching of immutable lookups (functools.lru_cache on pure functions of hashable arguments), hoisting loop-invariant computations, local-variable aliases of attributes that cannot change meanwhile, `''.join` / bytes concatenation rewrites, set/dict literal instead of constructor calls, generator expressions vs lists where the consumer iterates exactly once",
    "MODERNISATION: dataclass / NamedTuple field defaults, `typing` clean-ups, f-strings, `super()` without arguments, pathlib-free import clean-ups, `__all__`, `__slots__` where safe, replacing `type(x) == T` by `isinstance` ONLY where no subclass relation exists between the candidate classes, walrus operator, `match` is not allowed (python 3.8 compatible code only)",
]


def props():
    return [json.loads(l) for l in open(os.path.join(VERIF, "properties.jsonl")) if l.strip()]


def bug_prompt(wid, prop, focus):
    wt = f"{SEED}/{wid}"
    return f"""You are helping test a verification tool by writing a realistic *bug* for an open-source Python library. Work ONLY inside the git worktree at {wt} (a checkout of exhuma/puresnmp, a pure-Python asyncio SNMP client; sources under src/puresnmp and src/puresnmp_plugins, tests under tests/). Do not read or touch /verif or /repo or any other /tmp/seed/* directory. The Python to use is /venv/bin/python (the package is importable from an editable install of /repo, so ALWAYS run Python with PYTHONPATH={wt}/src so that your worktree's sources are the ones imported; verify with: PYTHONPATH={wt}/src /venv/bin/python -c "import puresnmp; print(puresnmp.__file__)").

The property the library is supposed to satisfy:

  Title: {prop['title']}
  Statement: {prop['statement']}
  Quantified over: {prop['quantifier']['text']}

Your task: produce TWO different, independent source changes (each a small edit of files under src/, like a plausible regression a maintainer could introduce during a refactoring or "optimisation") that BREAK this property, such that for each change:
  1. the package still imports/compiles;
  2. the existing test suite still passes completely: run   cd {wt} && PYTHONPATH={wt}/src /venv/bin/python -m pytest -q -p no:cacheprovider -x   (174 passed is the baseline; it must stay green with your change applied);
  3. the breakage needs something specific to manifest - a particular input, agent behaviour, interleaving, sequence of operations, boundary value or two cooperating code sites that each look fine alone - NOT something that ordinary use would expose at once;
  4. you provide a demonstration: a small standalone Python script (or pytest test file) that FAILS (non-zero exit / failing assertion) with your change applied and PASSES on the unchanged sources. The demonstration may simulate an SNMP agent by passing a custom async `sender` callable to `puresnmp.Client(ip, credentials, sender=...)` (signature: async def sender(endpoint, packet, timeout=..., retries=...) -> bytes), by calling library functions directly, or by using mocks. Run it both ways and confirm.
Prefer changes that are semantically subtle (off-by-one, wrong operand, dropped guard on one path, wrong constant, swapped arguments, stale variable, reordered statements, state shared where it should not be) over crude ones (deleting a whole function). Make the two changes differ in location and nature.

Deliverables - create the directory {wt}/seed_out containing:
  change1.diff, change2.diff   (each produced with `git diff` inside the worktree with ONLY that change applied; paths relative to the repo root, i.e. src/...)
  demo1.py, demo2.py           (the demonstrations; they must take the sources from PYTHONPATH; if they share a helper module put it into seed_out too)
  notes.md                     (one section per change headed "## Change 1 - <title>" / "## Change 2 - <title>": what it breaks, a paragraph starting "What is needed for it to manifest:", and the exact commands you ran with their outcomes: test suite with the change, demo with the change (fails), demo without the change (passes))
Leave the worktree's tracked files UNCHANGED at the end (git checkout -- . ; seed_out is untracked). Finish by replying with a short summary of the two changes.
{focus}
"""


def benign_prompt(wid, theme, plist):
    wt = f"{SEED}/{wid}"
    listing = "\n".join(f"  {p['id']}: {p['title']} - {p['statement']}" for p in plist)
    return f"""You are helping test a static-analysis tool for false alarms. Work ONLY inside the git worktree at {wt} (a checkout of exhuma/puresnmp, a pure-Python asyncio SNMP client; sources under src/puresnmp and src/puresnmp_plugins, tests under tests/). Do not read or touch /verif or /repo or any other /tmp/seed/* directory. Use /venv/bin/python and ALWAYS run Python with PYTHONPATH={wt}/src so that your worktree's sources are imported.

The library is supposed to satisfy the following twenty properties:
{listing}

Task: produce FOUR independent small changes that a maintainer could plausibly commit and that KEEP ALL TWENTY PROPERTIES TRUE for every input. Theme for your four changes: {theme}.
Each change must: keep the package importable; keep the existing test suite green (cd {wt} && PYTHONPATH={wt}/src /venv/bin/python -m pytest -q -p no:cacheprovider -x  -> 174 passed); change 8-70 lines; and genuinely preserve every one of the twenty properties for all inputs (think carefully - if a change could violate a property in some corner case, pick another change; do not change what is sent on the wire, what is accepted, what is returned or raised in any situation the properties talk about). Be bold about the *form* of the code (that is what is being tested) and conservative about its meaning. Each of the four should touch different functions.

For each change k=1..4: apply it alone on a clean tree, run the suite, save it as {wt}/seed_out/change<k>.diff (git diff with ONLY that change; paths relative to the repo root), then git checkout -- . Also write {wt}/seed_out/notes.md with one section per change headed "## change<k>.diff - <title>": what it does and a short argument why each potentially affected property still holds. Leave tracked files unchanged at the end. Reply with a short summary.
"""


def main():
    prefix = sys.argv[1]
    bugs = sys.argv[sys.argv.index("--bugs") + 1] if "--bugs" in sys.argv else "all"
    nbenign = int(sys.argv[sys.argv.index("--benign") + 1]) if "--benign" in sys.argv else 0
    plist = props()
    os.makedirs(f"{SEED}/prompts", exist_ok=True)
    ids = []
    focus = BUG_FOCUS.get(prefix, BUG_FOCUS_DEFAULT)
    for p in plist:
        if bugs != "all" and p["id"] not in bugs.split(","):
            continue
        if bugs == "none":
            continue
        wid = f"{prefix}{p['id'][1:]}"
        ids.append(wid)
        open(f"{SEED}/prompts/{wid}.txt", "w").write(bug_prompt(wid, p, focus))
    for k in range(1, nbenign + 1):
        wid = f"{prefix}B{k}"
        ids.append(wid)
        open(f"{SEED}/prompts/{wid}.txt", "w").write(benign_prompt(wid, BENIGN_THEMES[(k - 1) % len(BENIGN_THEMES)], plist))
    for wid in ids:
        wt = f"{SEED}/{wid}"
        if not os.path.exists(wt):
            subprocess.run(["git", "-C", "/repo", "worktree", "add", "-q", "--detach", wt, "HEAD"], check=True)
    print(" ".join(ids))


if __name__ == "__main__":
    main()
