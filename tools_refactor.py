#!/venv/bin/python
"""
Runs every property check against a behaviour-preserving refactoring (a diff
against /repo's HEAD) in a scratch worktree: all checks must stay at exit 0.
usage: tools_refactor.py <diff> [--keep-as <name>] [--kind "<text>"] [--what "<text>"]
"""
import glob, json, os, shutil, subprocess, sys, tempfile
VERIF = os.path.dirname(os.path.abspath(__file__))

def sh(cmd, cwd=None, env=None, timeout=600):
    res = subprocess.run(cmd, cwd=cwd, env=env, capture_output=True, text=True, timeout=timeout)
    return res.returncode, res.stdout + res.stderr

def main():
    diff = os.path.abspath(sys.argv[1])
    keep = sys.argv[sys.argv.index("--keep-as") + 1] if "--keep-as" in sys.argv else None
    kind = sys.argv[sys.argv.index("--kind") + 1] if "--kind" in sys.argv else "behaviour-preserving refactoring by an independent sub-agent"
    what = sys.argv[sys.argv.index("--what") + 1] if "--what" in sys.argv else ""
    tmp = tempfile.mkdtemp(prefix="verif-refcheck-")
    wt = os.path.join(tmp, "wt")
    out = {"diff": diff}
    try:
        rc, o = sh(["git", "-C", "/repo", "worktree", "add", "-q", "--detach", wt, "HEAD"]); assert rc == 0, o
        rc, o = sh(["git", "-C", wt, "apply", diff]); out["applies"] = rc == 0
        if rc: out["apply_error"] = o[-300:]; print(json.dumps(out)); return 1
        env = dict(os.environ, PYTHONPATH=os.path.join(wt, "src"))
        rc, o = sh(["/venv/bin/python", "-m", "pytest", "-q", "-p", "no:cacheprovider", "-x"], cwd=wt, env=env)
        out["suite"] = o.strip().splitlines()[-1] if o.strip() else ""; out["suite_green"] = rc == 0
        alarms = {}
        from tools_common import run_all

        for pid, (rc, o) in sorted(run_all(wt, os.path.join(tmp, "evidence")).items()):
            if rc != 0:
                alarms[pid] = {"exit": rc, "reports": [l.strip()[:260] for l in o.splitlines() if (" at " in l and l.startswith("  C")) or l.startswith("ANALYSIS-ERROR")][:4]}
        out["alarms"] = alarms
        if keep:
            dest = os.path.join(VERIF, "seeded", "benign", keep)
            os.makedirs(dest, exist_ok=True)
            shutil.copy(diff, os.path.join(dest, "patch.diff"))
            json.dump({"kind": kind, "what": what, "suite_with_change": out["suite"], "checks_raising_an_alarm": alarms}, open(os.path.join(dest, "meta.json"), "w"), indent=1)
        print(json.dumps(out, indent=1))
        return 0
    finally:
        sh(["git", "-C", "/repo", "worktree", "remove", "--force", wt]); shutil.rmtree(tmp, ignore_errors=True)

if __name__ == "__main__":
    sys.exit(main())
