#!/venv/bin/python
"""
Regression over everything kept under /verif/seeded: every seeded change must be
reported by the check of the property it breaks (exit 1 + VIOLATION), every
benign refactoring must leave all checks at exit 0.  Works on scratch copies of
<repo>/src (outside /repo and /verif); prints one line per case.
usage: tools_regress.py [--jobs 16] [--repo /repo] [--all]
"""
import glob, json, os, re, shutil, subprocess, sys, tempfile
from concurrent.futures import ThreadPoolExecutor
VERIF = os.path.dirname(os.path.abspath(__file__))
PROPS = [f"C{n:02d}" for n in range(1, 21)]
RULES = {}
ALL_FOR_SEEDS = "--all" in sys.argv  # by default a seeded change is only run through the check of the property it breaks

def run_case(case, repo):
    name, patch, own = case[:3]
    want = case[3] if len(case) > 3 else 1
    tmp = tempfile.mkdtemp(prefix="verif-regress-")
    try:
        shutil.copytree(os.path.join(repo, "src"), os.path.join(tmp, "src"), ignore=shutil.ignore_patterns("__pycache__", "*.egg-info"))
        res = subprocess.run(["patch", "-p1", "-s", "-i", patch], cwd=tmp, capture_output=True, text=True)
        if res.returncode != 0:
            return name, "STALE", res.stdout[-200:]
        fired, rules = {}, {}
        if own is None or ALL_FOR_SEEDS:
            from tools_common import run_all

            for pid, (code, text) in run_all(tmp, os.path.join(tmp, "ev")).items():
                if code != 0:
                    fired[pid] = code
                    rules[pid] = sorted(set(re.findall(r"^  (C\d\d-R\d+) at ", text, re.M)))
        for pid in ([] if own is None or ALL_FOR_SEEDS else [own]):
            env = dict(os.environ, VERIF_EVIDENCE_DIR=os.path.join(tmp, "ev"))
            r = subprocess.run(["/venv/bin/python", os.path.join(VERIF, "sa", "check.py"), pid, "--repo", tmp], capture_output=True, text=True, env=env, timeout=300)
            if r.returncode != 0:
                fired[pid] = r.returncode
                rules[pid] = sorted(set(re.findall(r"^  (C\d\d-R\d+) at ", r.stdout, re.M)))
        RULES[name] = rules
        if own is None:
            return name, ("ok" if not fired else "FALSE-ALARM"), fired
        if want == 2 and fired.get(own) == 2:
            return name, "ok", {**fired, "note": "refused (exit 2) as recorded"}
        return name, ("ok" if fired.get(own) == 1 else "MISSED"), fired
    finally:
        shutil.rmtree(tmp, ignore_errors=True)

def main():
    jobs = int(sys.argv[sys.argv.index("--jobs") + 1]) if "--jobs" in sys.argv else 16
    repo = sys.argv[sys.argv.index("--repo") + 1] if "--repo" in sys.argv else "/repo"
    cases = []
    for d in sorted(glob.glob(os.path.join(VERIF, "seeded", "C*-*"))):
        meta = json.load(open(os.path.join(d, "meta.json")))
        cases.append((os.path.basename(d), os.path.join(d, "patch.diff"), meta["breaks_property"], meta.get("expected_exit", 1)))
    for d in sorted(glob.glob(os.path.join(VERIF, "seeded", "benign", "*"))):
        if os.path.isdir(d):
            cases.append(("benign/" + os.path.basename(d), os.path.join(d, "patch.diff"), None))
    with ThreadPoolExecutor(jobs) as pool:
        results = list(pool.map(lambda c: run_case(c, repo), cases))
    bad = 0
    for name, status, fired in results:
        if status != "ok":
            bad += 1
        print(f"{name:18s} {status:12s} {fired}")
    print(f"regression: {len(results)} cases, {len(results) - bad} ok, {bad} not ok")
    if repo == "/repo":
        summary = {name: {"status": status, "exit_codes": fired, "rules": RULES.get(name, {})} for name, status, fired in results}
        with open(os.path.join(VERIF, "seeded", "regress_last.json"), "w") as f:
            json.dump(summary, f, indent=1, sort_keys=True)
    return 1 if bad else 0

if __name__ == "__main__":
    sys.exit(main())
