#!/venv/bin/python
"""
Confirms a seeded change delivered by a sub-agent and runs the checks against it.

usage: tools_seed.py <worktree seed_out dir> <property> <n> [--keep-as <name>]

Steps (all in a scratch worktree of /repo outside /repo and /verif, removed afterwards):
  1. apply changeN.diff, run the repository's test suite (must stay green)
  2. run demoN.py with the change (must fail) and without it (must pass)
  3. run every built property check against the changed sources; report which fire
With --keep-as the change is stored as /verif/seeded/<name>/ (patch.diff, demo, meta.json).
"""
import json, os, shutil, subprocess, sys, tempfile, glob

VERIF = os.path.dirname(os.path.abspath(__file__))

def sh(cmd, cwd=None, env=None, timeout=600):
    res = subprocess.run(cmd, cwd=cwd, env=env, capture_output=True, text=True, timeout=timeout, shell=isinstance(cmd, str))
    return res.returncode, (res.stdout + res.stderr)

def main():
    out_dir, prop, n = os.path.abspath(sys.argv[1]), sys.argv[2], sys.argv[3]
    keep = sys.argv[sys.argv.index("--keep-as") + 1] if "--keep-as" in sys.argv else None
    diff = os.path.join(out_dir, f"change{n}.diff")
    demo = os.path.join(out_dir, f"demo{n}.py")
    if not os.path.exists(demo):
        cands = glob.glob(os.path.join(out_dir, f"*demo{n}*.py")) + glob.glob(os.path.join(out_dir, f"test_demo{n}*.py"))
        demo = cands[0] if cands else demo
    tmp = tempfile.mkdtemp(prefix="verif-seedcheck-")
    wt = os.path.join(tmp, "wt")
    result = {"property": prop, "change": n, "diff": diff, "demo": demo}
    try:
        rc, out = sh(["git", "-C", "/repo", "worktree", "add", "-q", "--detach", wt, "HEAD"])
        assert rc == 0, out
        env = dict(os.environ, PYTHONPATH=os.path.join(wt, "src"))
        is_pytest = os.path.basename(demo).startswith("test_")
        demo_cmd = ["/venv/bin/python", "-m", "pytest", "-q", "-p", "no:cacheprovider", demo] if is_pytest else ["/venv/bin/python", demo]
        rc, out = sh(demo_cmd, cwd=wt, env=env, timeout=300)
        result["demo_without_change"] = "pass" if rc == 0 else f"FAIL rc={rc}: {out[-300:]}"
        rc, out = sh(["git", "-C", wt, "apply", diff])
        result["applies"] = rc == 0
        if rc != 0:
            result["apply_error"] = out[-300:]
            print(json.dumps(result, indent=1)); return 1
        rc, out = sh(["/venv/bin/python", "-m", "pytest", "-q", "-p", "no:cacheprovider", "-x"], cwd=wt, env=env, timeout=600)
        result["suite_with_change"] = out.strip().splitlines()[-1] if out.strip() else ""
        result["suite_green"] = rc == 0
        rc, out = sh(demo_cmd, cwd=wt, env=env, timeout=300)
        result["demo_with_change"] = "fails (as required)" if rc != 0 else "PASSES (change not demonstrated)"
        result["demo_fail_tail"] = out.strip()[-400:] if rc != 0 else ""
        fired = {}
        sys.path.insert(0, VERIF)
        from tools_common import run_all

        for pid, (rc, out) in sorted(run_all(wt, os.path.join(tmp, "evidence")).items()):
            if rc != 0:
                lines = [l.strip() for l in out.splitlines() if (" at " in l and l.startswith("  C")) or l.startswith("ANALYSIS-ERROR")]
                fired[pid] = {"exit": rc, "reports": lines[:4]}
        result["checks_fired"] = fired
        result["detected_by_own_property"] = prop in fired and fired[prop]["exit"] == 1
        confirmed = result["suite_green"] and result["demo_without_change"] == "pass" and result["demo_with_change"].startswith("fails")
        result["confirmed"] = confirmed
        if keep and confirmed:
            dest = os.path.join(VERIF, "seeded", keep)
            os.makedirs(dest, exist_ok=True)
            shutil.copy(diff, os.path.join(dest, "patch.diff"))
            shutil.copy(demo, os.path.join(dest, os.path.basename(demo)))
            for extra in glob.glob(os.path.join(out_dir, "*.py")):
                base = os.path.basename(extra)
                if not base.startswith(("demo", "test_demo", "probe")):
                    shutil.copy(extra, os.path.join(dest, base))  # helper modules the demo imports
            notes = os.path.join(out_dir, "notes.md")
            if os.path.exists(notes):
                shutil.copy(notes, os.path.join(dest, "agent_notes.md"))
            meta = {
                "breaks_property": prop,
                "origin": "independent sub-agent given only the property text and a scratch worktree",
                "change_in_notes": int(n),
                "needs_to_manifest": "see agent_notes.md (filled in by tools_seed_readme.py)",
                "confirmed_by": {
                    "test_suite_with_change": result["suite_with_change"],
                    "demo_with_change": result["demo_with_change"],
                    "demo_without_change": result["demo_without_change"],
                    "commands": [
                        "git -C <scratch worktree of /repo> apply patch.diff",
                        "PYTHONPATH=<wt>/src /venv/bin/python -m pytest -q -p no:cacheprovider -x",
                        f"PYTHONPATH=<wt>/src {' '.join(demo_cmd[:-1])} {os.path.basename(demo)}  (with and without the change)",
                    ],
                },
                "checks_that_report_it": {k: v["reports"] for k, v in fired.items() if v["exit"] == 1},
                "checks_undecided": {k: v["reports"] for k, v in fired.items() if v["exit"] == 2},
            }
            with open(os.path.join(dest, "meta.json"), "w") as f:
                json.dump(meta, f, indent=1)
        print(json.dumps(result, indent=1))
        return 0
    finally:
        sh(["git", "-C", "/repo", "worktree", "remove", "--force", wt])
        shutil.rmtree(tmp, ignore_errors=True)

if __name__ == "__main__":
    sys.exit(main())
