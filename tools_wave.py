#!/venv/bin/python
"""
Evaluates / stores the deliveries of a wave of sub-agents (see tools_prompts.py).

usage: tools_wave.py eval <prefix> [ids...]    run tools_seed / tools_refactor on every delivered diff, print one line each
       tools_wave.py keep <prefix> [ids...]    the same, and store confirmed cases under /verif/seeded (next free index)
       tools_wave.py clean <prefix>            remove the scratch worktrees of the wave
Bookkeeping only; the verdicts come from sa/check.py run by the two tools.
"""
import glob, json, os, re, subprocess, sys
from concurrent.futures import ThreadPoolExecutor

VERIF = os.path.dirname(os.path.abspath(__file__))
SEED = "/tmp/seed"


def next_index(prop):
    have = [int(os.path.basename(d).split("-")[1]) for d in glob.glob(os.path.join(VERIF, "seeded", f"{prop}-*"))]
    return max(have, default=0) + 1


def run_json(cmd):
    res = subprocess.run(cmd, capture_output=True, text=True)
    try:
        return json.loads(res.stdout)
    except Exception:  # pylint: disable=broad-except
        return {"error": (res.stdout + res.stderr)[-400:]}


def benign_what(wid, n):
    notes = os.path.join(SEED, wid, "seed_out", "notes.md")
    if not os.path.exists(notes):
        return ""
    for line in open(notes).read().splitlines():
        m = re.match(r"^#{1,4}\s*(?:change|refactor)\s*%d(?:\.diff)?\s*[-:–—]*\s*(.*)$" % n, line, re.I)
        if m:
            return re.sub(r"[`*#]+", "", m.group(1)).strip()[:180]
    return ""


def main():
    mode, prefix = sys.argv[1], sys.argv[2]
    only = sys.argv[3:]
    dirs = sorted(d for d in glob.glob(os.path.join(SEED, prefix + "*")) if os.path.isdir(d) and (not only or os.path.basename(d) in only))
    if mode == "clean":
        for d in dirs:
            subprocess.run(["git", "-C", "/repo", "worktree", "remove", "--force", d], capture_output=True)
        subprocess.run(["git", "-C", "/repo", "worktree", "prune"])
        print("removed", len(dirs))
        return 0
    jobs = []
    counters = {}
    for d in dirs:
        wid = os.path.basename(d)
        out = os.path.join(d, "seed_out")
        m = re.match(re.escape(prefix) + r"(\d\d)$", wid)
        if re.match(r"^W\d+B\d+$", wid):
            m = None  # W8B10: benign agent number 10 of wave 8, not property C10
        if m:
            prop = "C" + m.group(1)
            for n in (1, 2):
                if os.path.exists(os.path.join(out, f"change{n}.diff")):
                    cmd = ["/venv/bin/python", os.path.join(VERIF, "tools_seed.py"), out, prop, str(n)]
                    if mode == "keep":
                        idx = counters.setdefault(prop, next_index(prop))
                        counters[prop] = idx + 1
                        cmd += ["--keep-as", f"{prop}-{idx}"]
                    jobs.append((f"{wid}-{n}", "bug", prop, cmd))
        else:
            for n in range(1, 9):
                diff = os.path.join(out, f"change{n}.diff")
                if os.path.exists(diff):
                    cmd = ["/venv/bin/python", os.path.join(VERIF, "tools_refactor.py"), diff]
                    if mode == "keep":
                        kind = "property-preserving change (refactoring / feature / diagnostics) by an independent sub-agent"
                        cmd += ["--keep-as", f"{wid}-{n}", "--kind", kind, "--what", benign_what(wid, n)]
                    jobs.append((f"{wid}-{n}", "benign", None, cmd))
            if mode == "keep" and os.path.exists(os.path.join(out, "notes.md")):
                os.makedirs(os.path.join(VERIF, "seeded", "benign"), exist_ok=True)
                subprocess.run(["cp", os.path.join(out, "notes.md"), os.path.join(VERIF, "seeded", "benign", f"{wid}-notes.md")])
    with ThreadPoolExecutor(8) as pool:
        results = list(pool.map(lambda j: run_json(j[3]), jobs))
    bad = 0
    for (name, kind, prop, _), res in zip(jobs, results):
        if "error" in res:
            print(f"{name:10s} ERROR {res['error'][-200:]}")
            bad += 1
            continue
        if kind == "bug":
            fired = res.get("checks_fired", {})
            status = "ok" if res.get("confirmed") and res.get("detected_by_own_property") else ("UNCONFIRMED" if not res.get("confirmed") else "MISSED")
            if status != "ok":
                bad += 1
            extra = "" if res.get("confirmed") else f" suite={res.get('suite_green')} without={str(res.get('demo_without_change'))[:60]} with={res.get('demo_with_change')}"
            print(f"{name:10s} {status:11s} own={prop} fired={ {k: v['exit'] for k, v in fired.items()} }{extra}")
        else:
            alarms = res.get("alarms", {})
            status = "ok" if res.get("suite_green") and not alarms else ("SUITE-RED" if not res.get("suite_green") else "FALSE-ALARM")
            if status != "ok":
                bad += 1
            print(f"{name:10s} {status:11s} {json.dumps({k: [r[:230] for r in v['reports'][:2]] for k, v in alarms.items()})[:900] if alarms else ''}")
    print(f"{len(jobs)} deliveries, {bad} needing attention")
    return 0


if __name__ == "__main__":
    sys.exit(main())
