"""Triage: an unauthenticated Report with error-status 2 injected into a walk of an auth user."""
import asyncio, sys, warnings
warnings.simplefilter("ignore")
sys.path.insert(0, "/tmp/triage")
import fakeagent as fa
from puresnmp import Client, V3, ObjectIdentifier as OID
from puresnmp.credentials import Auth
from puresnmp.pdu import Report, PDUContent
from puresnmp.varbind import VarBind
from x690.types import Integer

MIB = [(f"1.3.6.1.2.1.2.2.1.1.{i}", Integer(i)) for i in range(1, 7)]

def tamper(n, req, authentic):
    if n == 3:
        pdu = Report(PDUContent(req.request_id, [VarBind(OID("1.3.6.1.2.1.2.2.1.1.3"), Integer(0))], 2, 1))
        return fa.build_message(req.msg_id, 0x00, b"user", pdu)  # no auth flag, no digest
    return authentic

async def main():
    agent = fa.Agent(b"user", "md5", b"authpassword", MIB, tamper=tamper)
    client = Client("192.0.2.1", V3("user", Auth(b"authpassword", "md5")), sender=agent)
    rows = []
    try:
        async for vb in client.walk(OID("1.3.6.1.2.1.2.2.1.1")):
            rows.append(vb)
    except Exception as exc:
        print("exception:", type(exc).__name__, exc)
        return 0
    print(f"walk ended normally with {len(rows)} of {len(MIB)} rows")
    return 1 if len(rows) != len(MIB) else 0

sys.exit(asyncio.run(main()))
