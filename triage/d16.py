"""Triage: reading usmStatsNotInTimeWindows.0 (ordinary data in a GetResponse) over SNMPv3."""
import asyncio, sys, warnings
warnings.simplefilter("ignore")
sys.path.insert(0, "/tmp/triage")
import fakeagent as fa
from puresnmp import Client, V3, ObjectIdentifier as OID
from puresnmp.credentials import Auth
from puresnmp.types import Counter

MIB = [("1.3.6.1.6.3.15.1.1.1.0", Counter(0)), ("1.3.6.1.6.3.15.1.1.2.0", Counter(3)), ("1.3.6.1.6.3.15.1.1.3.0", Counter(1))]

async def main():
    agent = fa.Agent(b"user", "md5", b"authpassword", MIB)
    client = Client("192.0.2.1", V3("user", Auth(b"authpassword", "md5")), sender=agent)
    try:
        rows = [vb async for vb in client.walk(OID("1.3.6.1.6.3.15.1.1"))]
    except Exception as exc:
        print("exception:", type(exc).__name__, exc)
        return 1
    print("rows:", len(rows))
    return 0 if len(rows) == 3 else 1

sys.exit(asyncio.run(main()))
