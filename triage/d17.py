"""Triage: GETBULK response truncated below one full row (RFC 3416 4.2.3 allows it). Does bulkwalk lose a root?"""
import asyncio, sys
sys.path.insert(0, __import__("os").path.dirname(__file__))
from d17_simagent import Agent
from x690.types import Integer, ObjectIdentifier as OID
from puresnmp import Client, V2C

DB = {f"1.3.6.1.2.1.{t}.{i}": Integer(t * 100 + i) for t in (2, 4) for i in (1, 2, 3)}
DB["1.3.6.1.2.1.9.1"] = Integer(1)

async def run(policy):
    agent = Agent(DB, policy)
    client = Client("192.0.2.1", V2C("public"), sender=agent)
    roots = [OID("1.3.6.1.2.1.2"), OID("1.3.6.1.2.1.4")]
    plain = [str(vb.oid) async for vb in client.multiwalk(roots)]
    bulk = [str(vb.oid) async for vb in client.bulkwalk(roots, bulk_size=2)]
    return plain, bulk

for policy in (("full",), ("varbinds", 3), ("varbinds", 1)):
    plain, bulk = asyncio.run(run(policy))
    print(policy, "getnext:", len(plain), "bulk:", len(bulk), "missing in bulk:", sorted(set(plain) - set(bulk)))
