"""
A tiny in-process SNMPv2c agent used by the demos.

``Agent(db, policy)`` is an async "sender" for ``puresnmp.Client``. *db* maps
OID strings to x690 values. *policy* decides how a GETBULK response is
truncated (all policies are allowed by RFC 3416 section 4.2.3):

    ("full",)        as many repetitions as requested
    ("reps", k)      at most k repetitions per response
    ("varbinds", k)  at most k variable bindings per response (this may cut
                     the last row short)
    ("earlystop",)   stop after a row which is all endOfMibView
"""
import asyncio
from typing import Any, Dict, List, Tuple

from x690 import decode
from x690.types import Integer, ObjectIdentifier as OID, OctetString, Sequence
from x690.util import encode_length

from puresnmp import Client, V2C
from puresnmp.pdu import EndOfMibView
from puresnmp.varbind import VarBind


def _header(data: bytes, pos: int) -> Tuple[int, int]:
    """Skip a BER identifier + length; returns (length, start of content)"""
    first = data[pos + 1]
    if first < 0x80:
        return first, pos + 2
    count = first & 0x7F
    length = int.from_bytes(data[pos + 2 : pos + 2 + count], "big")
    return length, pos + 2 + count


def _tlv(tag: int, payload: bytes) -> bytes:
    return bytes([tag]) + encode_length(len(payload)) + payload


def _response(version, community, request_id, varbinds) -> bytes:
    """Encode a v2c GetResponse (endOfMibView is written by hand: 0x82 0x00)"""
    encoded = b""
    for oid, value in varbinds:
        if isinstance(value, EndOfMibView):
            encoded += _tlv(0x30, bytes(oid) + b"\x82\x00")
        else:
            encoded += _tlv(0x30, bytes(oid) + bytes(value))
    pdu = _tlv(
        0xA2,
        bytes(request_id)
        + bytes(Integer(0))
        + bytes(Integer(0))
        + _tlv(0x30, encoded),
    )
    return _tlv(0x30, bytes(version) + bytes(community) + pdu)


class Agent:
    def __init__(self, db: Dict[str, Any], policy: Tuple[Any, ...] = ("full",)):
        self.rows = sorted((OID(k), v) for k, v in db.items())
        self.policy = policy
        self.requests: List[Tuple[str, List[str], int]] = []

    def _next(self, oid: OID):
        for candidate, value in self.rows:
            if oid < candidate:
                return VarBind(candidate, value)
        return VarBind(oid, EndOfMibView())

    async def __call__(self, endpoint, packet, timeout=6, retries=10) -> bytes:
        # The outer SEQUENCE and the PDU are taken apart by hand because a
        # GETBULK request PDU can not be decoded by x690.
        _, pos = _header(packet, 0)
        version, pos = decode(packet, pos, enforce_type=Integer)
        community, pos = decode(packet, pos, enforce_type=OctetString)
        tag = packet[pos]
        _, pos = _header(packet, pos)
        request_id, pos = decode(packet, pos, enforce_type=Integer)
        field2, pos = decode(packet, pos, enforce_type=Integer)
        field3, pos = decode(packet, pos, enforce_type=Integer)
        varbinds, pos = decode(packet, pos, enforce_type=Sequence)
        oids = [vb[0] for vb in varbinds]
        if tag == 0xA1:  # GETNEXT
            self.requests.append(("getnext", [str(o) for o in oids], 1))
            out = [self._next(o) for o in oids]
        elif tag == 0xA5:  # GETBULK (non-repeaters is always 0 for walks)
            assert field2.value == 0
            max_rep = field3.value
            self.requests.append(("getbulk", [str(o) for o in oids], max_rep))
            out = self._bulk(oids, max_rep)
        else:
            raise AssertionError("unsupported PDU tag %x" % tag)
        return _response(version, community, request_id, out)

    def _bulk(self, oids: List[OID], max_rep: int) -> List[VarBind]:
        kind = self.policy[0]
        if kind == "reps":
            max_rep = min(max_rep, self.policy[1])
        out: List[VarBind] = []
        current = list(oids)
        for _ in range(max_rep):
            row = [self._next(o) for o in current]
            out.extend(row)
            current = [vb.oid for vb in row]
            if kind == "earlystop" and all(
                isinstance(vb.value, EndOfMibView) for vb in row
            ):
                break
        if kind == "varbinds":
            out = out[: max(self.policy[1], 1)]
        return out


def expected_instances(db: Dict[str, Any], roots: List[str]) -> List[str]:
    """What a GETNEXT walk of *roots* returns (computed from the database)."""
    out = []
    for key in db:
        oid = OID(key)
        if any(oid in OID(root) and oid != OID(root) for root in roots):
            out.append(oid)
    return [str(o) for o in sorted(out)]


async def _collect(gen) -> List[str]:
    return [str(vb.oid) async for vb in gen]


def getnext_walk(db, roots, policy=("full",)) -> List[str]:
    client = Client("192.0.2.1", V2C("public"), sender=Agent(db, policy))
    return asyncio.run(_collect(client.multiwalk([OID(r) for r in roots])))


def bulk_walk(db, roots, bulk_size, policy=("full",)) -> List[str]:
    client = Client("192.0.2.1", V2C("public"), sender=Agent(db, policy))
    return asyncio.run(
        _collect(client.bulkwalk([OID(r) for r in roots], bulk_size=bulk_size))
    )
