"""Triage: discovery reply whose msgAuthoritativeEngineBoots is an OCTET STRING. Is the client usable afterwards?"""
import asyncio
from x690.types import Integer, OctetString, Sequence, ObjectIdentifier as OID
from puresnmp import Client, V3
from puresnmp.adt import HeaderData, Message, ScopedPDU, V3Flags
from puresnmp.pdu import Report, PDUContent, GetResponse
from puresnmp.varbind import VarBind
from x690 import decode

calls = []
def reply_for(packet: bytes, bad: bool) -> bytes:
    seq, _ = decode(packet, enforce_type=Sequence)
    msg_id = seq[1][0].value
    boots = OctetString(b"\x00\x01") if bad else Integer(1)
    secparams = bytes(Sequence([OctetString(b"engine-1"), boots, Integer(100), OctetString(b""), OctetString(b""), OctetString(b"")]))
    scoped = ScopedPDU(OctetString(b"engine-1"), OctetString(b""), Report(PDUContent(msg_id, [VarBind(OID("1.3.6.1.6.3.15.1.1.4.0"), Integer(1))])))
    m = Message(Integer(3), HeaderData(msg_id, 65507, V3Flags(False, False, False), 3), secparams, scoped)
    return bytes(m)

state = {"bad": True}
async def sender(endpoint, packet, timeout=6, retries=10):
    calls.append(packet)
    if len(calls) == 1:
        return reply_for(packet, bad=True)       # the one malformed datagram
    raise TimeoutError("agent silent afterwards (we only look at what the client does)")

async def main():
    c = Client("192.0.2.1", V3("user"), sender=sender)
    for attempt in (1, 2, 3):
        try:
            await c.get(OID("1.3.6.1.2.1.1.1.0"))
        except BaseException as exc:  # noqa
            print(f"request {attempt}: {type(exc).__name__}: {str(exc)[:90]}  (datagrams sent so far: {len(calls)})")
asyncio.run(main())
