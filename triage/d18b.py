"""D18 follow-up: an x690 Integer *subclass* (TimeTicks, application tag 0x43) as msgAuthoritativeEngineBoots /
msgAuthoritativeEngineTime passed an isinstance() check and became a timedelta in the decoded parameters.
Run: /venv/bin/python triage/d18b.py   (prints what from_snmp_type does on the current tree)"""
from x690.types import Integer, OctetString, Sequence
from puresnmp.types import TimeTicks
from puresnmp.exc import SnmpError
from puresnmp_plugins.security.usm import USMSecurityParameters

seq = Sequence([OctetString(b"engine"), TimeTicks(100), Integer(5), OctetString(b"u"), OctetString(b""), OctetString(b"")])
try:
    out = USMSecurityParameters.from_snmp_type(seq)
    print("ACCEPTED:", out)
except SnmpError as exc:
    print("REFUSED:", exc)
