"""Triage: a v2c datagram with the right community whose PDU body is garbage - is it delivered to the trap callback?"""
import os, sys
sys.path.insert(0, os.path.dirname(os.path.abspath(__file__)))
from trap_harness import Listener, notification
from x690.types import Integer, OctetString
from puresnmp.varbind import VarBind
from x690.types import ObjectIdentifier as OID

lst = Listener("public")
good, _ = notification(b"public", [VarBind(OID("1.3.6.1.4.1.1.1"), Integer(7))])
lst.feed(good, ("192.0.2.7", 40000))
print("well-formed notification: delivered", len(lst.delivered), "errors", len(lst.errors))
# same framing, PDU tag a7 (SNMPv2-Trap), body = 6 octets of garbage
version, community = bytes(Integer(1)), bytes(OctetString(b"public"))
for label, pdu in (("garbage trap body", b"\xa7\x06\xff\xff\xff\xff\xff\xff"), ("truncated trap body", good[good.index(b"\xa7"):][:8].replace(good[good.index(b"\xa7")+1:good.index(b"\xa7")+2], b"\x06", 1)), ("bare INTEGER in the PDU position", bytes(Integer(5)))):
    body = version + community + pdu
    data = b"\x30" + bytes([len(body)]) + body
    before = len(lst.delivered)
    lst.feed(data, ("192.0.2.9", 40001))
    got = lst.delivered[before:]
    state = "DELIVERED to the callback" if got else "not delivered"
    extra = ""
    if got:
        try:
            got[0].value
            extra = " (.value readable)"
        except BaseException as exc:
            extra = f" (touching .value raises {type(exc).__name__})"
    print(f"{label}: {state}{extra}; listener errors so far: {len(lst.errors)}")
