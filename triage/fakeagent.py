"""
A tiny simulated SNMPv3 (USM) agent used by demo1.py and demo2.py.

The agent signs its responses with an *independent* implementation of the
RFC 3414 HMAC-96 digests (hashlib/hmac only), so that it does not depend on
the library code under test for producing authentic packets.

The library sources are taken from PYTHONPATH.
"""

import hashlib
import hmac
from typing import Callable, Dict, List, Optional, Tuple

from x690 import decode
from x690.types import Integer, ObjectIdentifier, OctetString, Sequence

from puresnmp.adt import HeaderData, Message, PlainMessage, ScopedPDU, V3Flags
from puresnmp.pdu import (
    BulkGetRequest,
    GetNextRequest,
    GetRequest,
    GetResponse,
    PDUContent,
    Report,
)
from puresnmp.types import Counter
from puresnmp.varbind import VarBind

ENGINE_ID = b"\x80\x00\x1f\x88\x80\x5a\x17\xa6\x3e\x11\x22\x33\x44"
ENGINE_BOOTS = 7
ENGINE_TIME = 1234



class _EndOfMibViewOnWire:
    """endOfMibView as it appears on the wire (context-specific 2, empty)"""

    def __bytes__(self) -> bytes:
        return b"\x82\x00"


_HASHES = {"md5": (hashlib.md5, 16), "sha1": (hashlib.sha1, 20)}
_KEY_CACHE: Dict[Tuple[str, bytes, bytes], bytes] = {}


def localised_key(method: str, password: bytes, engine_id: bytes) -> bytes:
    """RFC 3414 A.2 password to key + localisation (independent impl.)"""
    ck = (method, password, engine_id)
    if ck in _KEY_CACHE:
        return _KEY_CACHE[ck]
    impl, _ = _HASHES[method]
    size = 1024 * 1024
    reps = size // len(password) + 1
    ku = impl((password * reps)[:size]).digest()
    kul = impl(ku + engine_id + ku).digest()
    _KEY_CACHE[ck] = kul
    return kul


def usm_params(
    user: bytes,
    digest: bytes = b"",
    salt: bytes = b"",
    engine_id: bytes = ENGINE_ID,
) -> bytes:
    return bytes(
        Sequence(
            [
                OctetString(engine_id),
                Integer(ENGINE_BOOTS),
                Integer(ENGINE_TIME),
                OctetString(user),
                OctetString(digest),
                OctetString(salt),
            ]
        )
    )


def build_message(
    msg_id: int,
    flags: int,
    user: bytes,
    pdu,
    digest: bytes = b"",
    encrypted: bool = False,
) -> bytes:
    """Serialise a v3 message with the given raw flags byte and digest."""
    spdu = Sequence([OctetString(ENGINE_ID), OctetString(b""), pdu])
    payload = OctetString(bytes(spdu)) if encrypted else spdu
    return bytes(
        Sequence(
            [
                Integer(3),
                Sequence(
                    [
                        Integer(msg_id),
                        Integer(65507),
                        OctetString(bytes([flags])),
                        Integer(3),
                    ]
                ),
                OctetString(usm_params(user, digest)),
                payload,
            ]
        )
    )


def sign(
    msg_id: int,
    flags: int,
    user: bytes,
    pdu,
    method: str,
    password: bytes,
    encrypted: bool = False,
) -> bytes:
    """Build an authentic (correctly signed) message"""
    zeroed = build_message(msg_id, flags, user, pdu, b"\x00" * 12, encrypted)
    key = localised_key(method, password, ENGINE_ID)
    digest = hmac.new(key, zeroed, method).digest()[:12]
    out = build_message(msg_id, flags, user, pdu, digest, encrypted)
    assert len(out) == len(zeroed)
    return out


class Request:
    """Decoded view on what the client sent"""

    def __init__(self, packet: bytes) -> None:
        seq, _ = decode(packet, enforce_type=Sequence)
        header = seq[1]
        self.msg_id = header[0].pythonize()
        self.flags = header[2].pythonize()[0]
        sec, _ = decode(seq[2].pythonize(), enforce_type=Sequence)
        self.user = sec[3].pythonize()
        payload = seq[3]
        if isinstance(payload, OctetString):
            payload, _ = decode(payload.pythonize(), enforce_type=Sequence)
        self.pdu = payload[2]
        self.is_discovery = self.user == b""
        if isinstance(self.pdu, BulkGetRequest):
            self.request_id = None
            self.oids = []
        else:
            self.request_id = self.pdu.value.request_id
            self.oids = [vb.oid for vb in self.pdu.value.varbinds]


def discovery_response(req: Request) -> bytes:
    report = Report(
        PDUContent(
            req.request_id,
            [
                VarBind(
                    ObjectIdentifier("1.3.6.1.6.3.15.1.1.4.0"),
                    Counter(1),
                )
            ],
        )
    )
    return build_message(req.msg_id, 0, b"", report)


class Agent:
    """
    A fake agent with a small sorted MIB.

    ``tamper`` is an optional hook ``(n, request, authentic_bytes) -> bytes``
    which plays the on-path attacker. *n* counts the non-discovery exchanges
    (starting at 1).
    """

    def __init__(
        self,
        user: bytes,
        method: str,
        password: bytes,
        mib: List[Tuple[str, object]],
        priv: bool = False,
        tamper: Optional[Callable[[int, Request, bytes], bytes]] = None,
    ) -> None:
        self.user = user
        self.method = method
        self.password = password
        self.mib = [(ObjectIdentifier(o), v) for o, v in mib]
        self.priv = priv
        self.tamper = tamper
        self.exchanges = 0
        self.delivered: List[bytes] = []

    def answer(self, req: Request) -> bytes:
        """The authentic response for the request"""
        binds = []
        for oid in req.oids:
            if isinstance(req.pdu, GetNextRequest):
                for cand, value in self.mib:
                    if oid < cand:
                        binds.append(VarBind(cand, value))
                        break
                else:
                    binds.append(VarBind(oid, _EndOfMibViewOnWire()))
            else:
                for cand, value in self.mib:
                    if cand == oid:
                        binds.append(VarBind(cand, value))
                        break
                else:
                    raise AssertionError("demo asks for unknown OID")
        pdu = GetResponse(PDUContent(req.request_id, binds))
        flags = 0x03 if self.priv else 0x01
        return sign(
            req.msg_id,
            flags,
            self.user,
            pdu,
            self.method,
            self.password,
            encrypted=self.priv,
        )

    async def __call__(self, endpoint, packet, timeout=0, retries=0) -> bytes:
        req = Request(packet)
        if req.is_discovery:
            return discovery_response(req)
        self.exchanges += 1
        authentic = self.answer(req)
        out = authentic
        if self.tamper is not None:
            out = self.tamper(self.exchanges, req, authentic)
        self.delivered.append(out)
        return out
