"""
Shared helper for the demos: drives the trap listener of puresnmp without
opening a socket.

``register_trap_callback`` is called with ``puresnmp.api.raw.listen`` replaced
by a coroutine that builds the real ``SNMPTrapReceiverProtocol`` around the
callback the library hands to the transport. Datagrams are then pushed into
``protocol.datagram_received`` exactly like the asyncio datagram transport
would do it (an exception raised by ``datagram_received`` is swallowed and
logged by the event loop, the socket stays open).
"""
import asyncio
from typing import Any, List, Tuple
from unittest.mock import patch

from x690.types import Integer, ObjectIdentifier, OctetString, Sequence

import puresnmp.api.raw as raw
from puresnmp.credentials import V2C
from puresnmp.pdu import PDUContent, Trap
from puresnmp.transport import SNMPTrapReceiverProtocol
from puresnmp.types import TimeTicks
from puresnmp.varbind import VarBind

UPTIME = ObjectIdentifier("1.3.6.1.2.1.1.3.0")
TRAP_OID = ObjectIdentifier("1.3.6.1.6.3.1.1.4.1.0")


class FakeTransport:
    def __init__(self) -> None:
        self.closed = False

    def close(self) -> None:
        self.closed = True

    def abort(self) -> None:
        self.closed = True

    def is_closing(self) -> bool:
        return self.closed


class Listener:
    def __init__(self, community: str = "public", loop=None) -> None:
        self.delivered: List[Trap] = []
        self.errors: List[BaseException] = []
        self.transport = FakeTransport()
        self.protocol = None
        self.loop = loop or asyncio.new_event_loop()

        async def fake_listen(bind_address, port, callback, loop=None):
            self.protocol = SNMPTrapReceiverProtocol(callback)
            self.protocol.connection_made(self.transport)

        async def on_trap(trap):
            self.delivered.append(trap)

        with patch.object(raw, "listen", fake_listen):
            raw.register_trap_callback(
                on_trap,
                listen_address="127.0.0.1",
                port=50162,
                credentials=V2C(community),
                loop=self.loop,
            )

    def feed(self, data: bytes, addr: Tuple[str, int]) -> None:
        """
        What the selector datagram transport does for one datagram
        """

        async def _inner():
            if self.transport.closed:
                return  # a closed socket does not receive anything any more
            try:
                self.protocol.datagram_received(data, addr)
            except Exception as exc:  # the loop logs & carries on
                self.errors.append(exc)
            # let the scheduled callback run
            for _ in range(3):
                await asyncio.sleep(0)

        self.loop.run_until_complete(_inner())


def notification(
    community: bytes,
    payload: List[VarBind],
    request_id: int = 1,
    uptime: int = 1000,
    trap_oid: str = "1.3.6.1.4.1.8072.2.3.0.1",
) -> Tuple[bytes, List[VarBind]]:
    varbinds = [
        VarBind(UPTIME, TimeTicks(uptime)),
        VarBind(TRAP_OID, ObjectIdentifier(trap_oid)),
    ] + list(payload)
    pdu = Trap(PDUContent(request_id, varbinds))
    data = bytes(Sequence([Integer(1), OctetString(community), pdu]))
    return data, varbinds
